"""Scaffolding shared by the procsim-based checks: worker sandboxes at one fixed path,
exploration loop, schedule minimisation, replay gating, evidence."""
import json
import os
import sys
import time

from . import common
from . import procsim as ps

FIXED = None          # the path every worker sees its sandbox at
_sb = None


def _init_worker(wid):
    global _sb, FIXED
    base = os.path.join(ps.scratch_base(), "occaverif")
    mine = os.path.join(base, "p%d-w%02d" % (os.getppid(), wid))
    fixed = os.path.join(base, "sim")
    os.makedirs(mine, exist_ok=True)
    ok = common.private_mount(mine, fixed)
    _sb = ps.Sandbox.at(fixed if ok else mine)
    _sb.private = ok
    _sb.backing = mine


def sandbox():
    return _sb


def cleanup_scratch():
    import shutil
    base = os.path.join(ps.scratch_base(), "occaverif")
    try:
        for d in os.listdir(base):
            if d.startswith("p%d-" % os.getpid()):
                shutil.rmtree(os.path.join(base, d), ignore_errors=True)
    except OSError:
        pass


def _ns_probe(_):
    return bool(_sb is not None and getattr(_sb, "private", False))


def _exec_task(task):
    fn, scn = task
    return fn(scn, _sb)


class Explorer:
    """Runs execute(scenario, sandbox) over generated scenarios inside a worker pool,
    minimises and gates violations, and fills a common.Report."""

    def __init__(self, prop, tier, level, gen, execute, signature, minimise=None):
        self.prop, self.tier, self.gen, self.execute = prop, tier, gen, execute
        self.signature = signature
        self.minimise_fn = minimise
        self.seed = common.base_seed()
        self.report = common.Report(prop, tier, level, self.seed)
        self.pool = common.Pool(initfn=_init_worker)
        # can the workers see their sandboxes at one fixed path (private mount namespace)?  If not, event logs
        # of one scenario differ between workers in the hash-directory names derived from absolute include paths,
        # and the replay gate compares violation classes only
        self.ns_ok = self.pool.map(_ns_probe, [0])[0]
        if not self.ns_ok:
            common.say("[%s] private mount namespaces unavailable: per-worker sandbox paths, replay gate compares classes only" % prop)
        self.raw_seen = {}
        self.fault_counts = {}
        self.probes = {}
        self.states = set()
        self.sim_steps = 0
        self.sim_ns = 0
        self.inconclusive = 0
        self.max_minimise = 6

    def run1(self, scn):
        return self.pool.map(_exec_task, [(self.execute, scn)])[0]

    def runN(self, scns):
        return self.pool.map(_exec_task, [(self.execute, s) for s in scns])

    def absorb(self, scn, out):
        r = self.report
        r.evaluations += 1
        self.sim_steps += out.get("steps", 0)
        self.sim_ns += out.get("sim_ns", 0)
        if out.get("inconclusive"):
            self.inconclusive += 1
        for k, v in out.get("faults", {}).items():
            self.fault_counts[k] = self.fault_counts.get(k, 0) + v
        for k, v in out.get("probes", {}).items():
            self.probes[k] = self.probes.get(k, 0) + v
        for s in out.get("states", []):
            self.states.add(s)
        if out.get("nontrivial"):
            r.nontrivial.add(out.get("distinct_key"))
        if len(r.samples) < 3 and out.get("nontrivial"):
            r.samples.append({"scenario": scn, "result": out.get("summary"), "log_hash": out.get("log_hash"),
                              "event_log_excerpt": out.get("excerpt", [])[:25]})
        if out.get("violations"):
            self.handle_violation(scn, out)

    def explore(self, budget_s, index_iter=None, max_tasks=None):
        deadline = time.time() + budget_s
        idx = index_iter if index_iter is not None else _count()

        def tasks():
            for scn in corpus(self.prop):
                yield (self.execute, scn)
            for i in idx:
                scn = self.gen(common.run_seed(self.seed, i, self.prop), i)
                if scn is None:
                    continue
                yield (self.execute, scn)

        def on_result(task, out):
            self.absorb(task[1], out)

        n, errors = self.pool.run(_exec_task, tasks(), deadline, on_result, max_tasks=max_tasks)
        for (t, e) in errors:
            self.report.engine_errors.append(e)
        return n

    def handle_violation(self, scn, out):
        raw = self.signature(scn, out)
        if raw in self.report.known:
            # already classified as a recorded finding by the same signature function: no need to minimise again
            self.report.known_seen[raw] = self.report.known[raw]
            self.raw_seen[raw] = self.raw_seen.get(raw, 0) + 1
            return
        if raw in self.raw_seen:
            self.raw_seen[raw] += 1
            return
        self.raw_seen[raw] = 1
        if len(self.raw_seen) > self.max_minimise:
            return
        common.say("[%s] violation candidate %s (seed %s): minimising" % (self.prop, raw, scn.get("seed")))
        cls = out["violations"][0][0]
        mscn, mout = scn, out
        if self.minimise_fn:
            try:
                mscn, mout = self.minimise_fn(self, scn, out, cls)
            except Exception as e:
                # (e.g. a shrunk schedule that is not feasible): report the violation as found, unminimised
                common.say("[%s] minimiser gave up (%s): reporting the scenario as found" % (self.prop, str(e)[:200].replace("\n", " ")))
                mscn, mout = scn, out
        # gate: the minimised scenario must reproduce the same class with the same event log, twice
        a = self.run1(mscn)
        b = self.run1(mscn)
        ca = [v[0] for v in a.get("violations", [])]
        cb = [v[0] for v in b.get("violations", [])]
        if cls not in ca or cls not in cb or (self.ns_ok and a.get("log_hash") != b.get("log_hash")):
            self.report.engine_errors.append(
                "replay of minimised scenario did not reproduce %s deterministically (%s/%s, %s/%s): %s" %
                (cls, ca, cb, a.get("log_hash"), b.get("log_hash"), json.dumps(mscn)[:1500]))
            return
        sig = self.signature(mscn, a)
        text = "; ".join(v[1] for v in a["violations"][:3])
        replay = {"property": self.prop, "engine": "procsim", "class": cls, "signature": sig,
                  "scenario": mscn, "expected_log_hash": a.get("log_hash"),
                  "violations": a["violations"], "event_log": a.get("full_log", [])[-400:]}
        self.report.add_violation(sig, replay, text)

    def finish(self, extra_cov=None):
        r = self.report
        wall = max(time.time() - r.t0, 1e-9)
        r.cov.update({
            "simulated_steps": self.sim_steps,
            "simulated_seconds": round(self.sim_ns / 1e9, 3),
            "faults_fired": self.fault_counts,
            "probes": self.probes,
            "distinct_cache_states": len(self.states),
            "inconclusive_runs": self.inconclusive,
            "seeds_per_hour": round(r.evaluations / wall * 3600.0, 1),
            "raw_violation_signatures": self.raw_seen,
            "sandbox_at_fixed_path_via_private_mount_namespace": bool(self.ns_ok),
            "components": {
                "real": ["libocca (built from /repo working tree, -DLIBOCCA_OCCA_VERIF)", "occa_builder driver over the public API",
                         "/bin/sh", "Linux file system (tmpfs) semantics", "g++ output (memoised)",
                         "dlopen/dlsym of the built kernels"],
                "stub": ["simcc in place of the compiler executable (hands out memoised real g++ output in 3 writes)",
                         "clock (time/gettimeofday/clock_gettime) and std::random_device via LD_PRELOAD shim",
                         "process scheduling at file-system system calls (ptrace+seccomp tracer)"]},
        })
        if extra_cov:
            r.cov.update(extra_cov)
        self.pool.close()
        cleanup_scratch()
        return r.finish()


def corpus(prop):
    """Regression scenarios kept under /verif/corpus/<ID>/ (minimised replays of repaired defects and of
    seeded changes): they are executed first in every run, before the seeded exploration."""
    d = os.path.join(common.VERIF, "corpus", prop)
    out = []
    try:
        names = sorted(os.listdir(d))
    except OSError:
        return out
    for n in names:
        if n.endswith(".json"):
            try:
                with open(os.path.join(d, n)) as f:
                    rp = json.load(f)
                out.append(rp["scenario"] if "scenario" in rp else rp)
            except (OSError, ValueError, KeyError):
                pass
    return out


def _count():
    i = 0
    while True:
        yield i
        i += 1


def replay_main(prop, execute, path):
    """./check <ID> --replay file : exit 1 iff the recorded class reproduces."""
    with open(path) as f:
        rp = json.load(f)
    pool = common.Pool(initfn=_init_worker, nworkers=1)
    out = pool.map(_exec_task, [(execute, rp["scenario"])])[0]
    pool.close()
    cleanup_scratch()
    classes = [v[0] for v in out.get("violations", [])]
    print("replay: classes=%s log_hash=%s (recorded %s)" % (classes, out.get("log_hash"), rp.get("expected_log_hash")))
    for v in out.get("violations", []):
        print("  " + v[0] + ": " + v[1])
    if rp["class"] in classes:
        print("VIOLATION property=%s replay=%s" % (prop, path))
        return 1
    return 0
