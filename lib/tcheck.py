"""simrt driver for C30: workloads spread over simulated threads, scripted schedules derived
from a traced dry run (race-directed + random preemptions), outcome oracles."""
import hashlib
import json
import os
import struct
import subprocess

from . import build, common
from . import hcheck
from . import hmodel as hm

ENG = os.path.join(build.VERIF, "engines", "simrt")
BIN = os.path.join(build.WORK, "bin")
MAXTHREADS = 16
KINDS = {"D": 1 + MAXTHREADS, "M": 2 + 2 * MAXTHREADS, "P": MAXTHREADS, "K": 1 + MAXTHREADS, "S": 1 + MAXTHREADS}


def ensure_engine():
    build.ensure("tsi")
    os.makedirs(BIN, exist_ok=True)
    hcheck_cache = os.path.join(build.WORK, "hsim-cache")
    os.makedirs(hcheck_cache, exist_ok=True)
    with build.Lock("tsim-tool"):
        build.cxx(os.path.join(BIN, "tsim"),
                  [os.path.join(ENG, "tsim.cpp"), os.path.join(ENG, "simrt.cpp")], variant="tsi",
                  flags=["-DOCCA_THREAD_SHARABLE_ENABLED=1", "-rdynamic", "-pthread",
                         "-DHS_ND=%d" % KINDS["D"], "-DHS_NM=%d" % KINDS["M"], "-DHS_NP=%d" % KINDS["P"],
                         "-DHS_NK=%d" % KINDS["K"], "-DHS_NS=%d" % KINDS["S"]],
                  libs=["-ldl"])
        # warm the harness kernel cache once, in one process, before the workers start their servers
        s = Server("warm-%d" % os.getpid())
        s.start()
        s.proc.stdin.write("QUIT\n")
        s.proc.stdin.flush()
        s.proc.wait()


class Server:
    def __init__(self, tag):
        self.tag = tag
        self.trace = os.path.join(hcheck_scratch(), "tsim-%s.trace" % tag)
        self.errfile = os.path.join(build.WORK, "tsim-err-%s.txt" % tag)
        self.proc = None

    def start(self):
        env = dict(os.environ)
        env.update({"OCCA_CACHE_DIR": os.path.join(build.WORK, "hsim-cache"), "OMP_NUM_THREADS": "1", "LANG": "C"})
        for k in list(env):
            if k.startswith("OCCA_") and k != "OCCA_CACHE_DIR":
                del env[k]
        self.err = open(self.errfile, "w")
        self.proc = subprocess.Popen(["setarch", "-R", os.path.join(BIN, "tsim"), self.trace], stdin=subprocess.PIPE,
                                     stdout=subprocess.PIPE, stderr=self.err, env=env, text=True, bufsize=1 << 16)
        line = self.proc.stdout.readline()
        if line.strip() != "READY":
            raise RuntimeError("tsim did not start: %r %s" % (line, open(self.errfile).read()[-2000:]))

    def run(self, scn, switches, trace=False):
        if self.proc is None or self.proc.poll() is not None:
            self.start()
        self.err.seek(0)
        self.err.truncate()
        p = self.proc
        lines = ["RUN %d %d %d %d %d %d" % (len(scn["threads"]), len(switches), 1 if trace else 0, len(scn["prolog"]),
                                           len(scn.get("epilog", [])), scn.get("first", 1))]
        lines += scn["prolog"]
        for i, ops in enumerate(scn["threads"]):
            lines.append("T %d %d" % (i + 1, len(ops)))
            lines += ops
        for (t, k, u) in switches:
            lines.append("S %d %d %d" % (t, k, u))
        lines += scn.get("epilog", [])
        p.stdin.write("\n".join(lines) + "\n")
        p.stdin.flush()
        out = {"P": [], "W": {}, "E": [], "steps": {}, "fired": 0, "obs": [], "status": None, "sig": None}
        while True:
            line = p.stdout.readline()
            if not line:
                raise RuntimeError("tsim server died: " + open(self.errfile).read()[-2000:])
            line = line.rstrip("\n")
            if line.startswith("STATUS "):
                t = line.split()
                out["status"], out["sig"] = int(t[1]), int(t[2])
                break
            if line.startswith("PR "):
                out["P"].append(line[3:])
            elif line.startswith("ER "):
                out["E"].append(line[3:])
            elif line.startswith("WR "):
                t = line.split(" ", 2)
                out["W"].setdefault(int(t[1]), []).append(t[2])
            elif line.startswith("STEPS "):
                t = line.split()
                out["steps"][int(t[1])] = int(t[2])
            elif line.startswith("FIRED "):
                out["fired"] = int(line.split()[1])
            elif line == ".":
                pass
            else:
                out["obs"].append(line)
        out["stderr"] = ""
        if out["status"] != 0 or out["sig"]:
            try:
                with open(self.errfile) as f:
                    out["stderr"] = f.read()[-1500:]
            except OSError:
                pass
        return out

    def read_trace(self):
        recs = []
        try:
            with open(self.trace, "rb") as f:
                data = f.read()
        except OSError:
            return recs
        for i in range(0, len(data) - 15, 16):
            a, addr = struct.unpack_from("<QQ", data, i)
            recs.append((a >> 56, (a >> 48) & 0xff, (a >> 32) & 0xffff, a & 0xffffffff, addr))
        return recs


def hcheck_scratch():
    for d in ("/dev/shm", build.WORK):
        if os.path.isdir(d) and os.access(d, os.W_OK):
            return d
    return build.WORK


_server = None


def server():
    global _server
    if _server is None:
        _server = Server("w%s-%d" % (common.worker_id(), os.getpid()))
    return _server


# ------------------------------------------------------------------ workload generation

def slots_of(t):
    """Slots owned by worker t (1-based)."""
    return {"D": t, "M": [2 + 2 * (t - 1), 3 + 2 * (t - 1)], "P": t - 1, "K": t, "S": t}


def generate(seed):
    r = common.rng(seed, "c30")
    n = r.choice([2, 2, 2, 3, 3, 4, 4, 6, 8, 12, 16])
    mode = r.choice(["Serial", "Serial", "OpenMP"])
    prolog = ["new D 0", "mkdev 0 %s" % mode, "new M 0", "new M 1", "new K 0", "new S 0"]
    fills = 17
    # shared objects owned by main: two memories, maybe a kernel and a stream
    prolog += ["malloc 0 0 %d int -1 0 0" % r.randint(2, 16), "fill 0 %d" % fills,
               "malloc 0 1 %d byte -1 0 0" % r.randint(8, 64), "fill 1 %d" % (fills + 1)]
    shared_kernel = r.random() < 0.4
    if shared_kernel:
        prolog.append("build 0 0 0")
    # objects handed out the way the C API does it: dontUseRefs() - their handle rings are still linked and unlinked
    # by every copy, only the last handle does not free them (they go with an explicit free() or with the device)
    norefs = [w for w in (0, 1) if r.random() < 0.2]
    for w in norefs:
        prolog.append("norefs M %d" % w)
    threads = []
    for t in range(1, n + 1):
        s = slots_of(t)
        prolog += ["new M %d" % s["M"][0], "new M %d" % s["M"][1], "new P %d" % s["P"], "new K %d" % s["K"], "new S %d" % s["S"], "new D %d" % s["D"]]
    # initial distribution of handles to the shared memories
    holders = {0: [], 1: []}
    for t in range(1, n + 1):
        s = slots_of(t)
        for which, slot in ((0, s["M"][0]), (1, s["M"][1])):
            if r.random() < 0.6:
                prolog.append("assign M %d %d" % (slot, which))
                holders[which].append(t)
    # main may let go of its own handle, so that workers hold the last ones
    main_keeps = {}
    for which in (0, 1):
        main_keeps[which] = not (holders[which] and r.random() < 0.6)
    pending_drop = [w for w in (0, 1) if not main_keeps[w]]
    budget = r.choice([2, 3, 4, 6, 8]) if n > 6 else r.choice([3, 5, 8, 12])
    fam = [f for f in ("share", "alloc", "slice", "pool", "kernel", "stream", "dev") if r.random() < 0.6] or ["share"]
    if "share" not in fam and r.random() < 0.7:
        fam.append("share")
    for t in range(1, n + 1):
        s = slots_of(t)
        a, b = s["M"]
        ops = []
        # which shared memory (0 / 1) each of the worker's two slots certainly refers to at this point of its program
        hold = {a: (0 if t in holders[0] else None), b: (1 if t in holders[1] else None)}
        for _ in range(r.randint(1, budget)):
            f = r.choice(fam)
            if f == "share":
                x = r.random()
                which = r.choice([w for w in (0, 1)])
                src = [sl for sl in (a, b) if hold[sl] is not None]
                if x < 0.15 and src:
                    # a slice of the shared memory: a new view object linked into the shared buffer's ring
                    sl = r.choice(src)
                    dst = b if sl == a else a
                    ops.append("slice %d %d 1 1" % (dst, sl))
                    hold[dst] = None
                elif x < 0.5 and main_keeps[which]:
                    sl = r.choice([a, b])
                    ops.append("assign M %d %d" % (sl, which))
                    hold[sl] = which
                elif x < 0.8:
                    sl = r.choice([a, b])
                    ops += ["del M %d" % sl, "new M %d" % sl]
                    hold[sl] = None
                else:
                    ops.append("assign M %d %d" % (a, b))
                    hold[a] = hold[b]
            elif f == "alloc":
                hold[a] = hold[b] = None          # (conservative: the families below reuse both slots)
                sl = r.choice([a, b])
                fills += 1
                ops += ["malloc 0 %d %d %s -1 0 0" % (sl, r.randint(1, 32), r.choice(["int", "byte", "double"])), "fill %d %d" % (sl, fills % 256)]
                if r.random() < 0.5:
                    ops.append("free M %d" % sl)
            elif f == "slice":
                hold[a] = hold[b] = None
                fills += 1
                ops += ["malloc 0 %d %d int -1 0 0" % (a, r.randint(2, 12)), "fill %d %d" % (a, fills % 256), "slice %d %d 1 1" % (b, a)]
            elif f == "pool":
                hold[a] = hold[b] = None
                fills += 1
                ops += ["mkpool 0 %d" % s["P"], "reserve %d %d %d byte" % (s["P"], a, r.choice([8, 40, 128, 200])), "fill %d %d" % (a, fills % 256)]
                if r.random() < 0.5:
                    ops += ["del M %d" % a, "new M %d" % a]
            elif f == "kernel":
                if shared_kernel and r.random() < 0.5:
                    ops += ["assign K %d 0" % s["K"]]
                    if r.random() < 0.5:
                        ops += ["del K %d" % s["K"], "new K %d" % s["K"]]
                else:
                    hold[a] = hold[b] = None
                    fills += 1
                    ops += ["build 0 %d %d" % (s["K"], r.randrange(2)), "malloc 0 %d 4 int -1 0 0" % a, "fill %d %d" % (a, fills % 256),
                            "malloc 0 %d 4 int -1 0 0" % b, "run %d %d %d 4" % (s["K"], a, b)]
            elif f == "stream":
                ops += ["mkstream 0 %d" % s["S"]]
                if r.random() < 0.5:
                    ops += ["del S %d" % s["S"], "new S %d" % s["S"]]
            elif f == "dev":
                ops += ["assign D %d 0" % s["D"]]
                if r.random() < 0.6:
                    ops += ["del D %d" % s["D"], "new D %d" % s["D"]]
        threads.append(ops)
    for w in pending_drop:
        prolog += ["del M %d" % w, "new M %d" % w]
    # after the join the main thread may drop or free the device (handles that survived in the workers' slots must
    # then read uninitialized, every backend object must be gone, nothing may be freed twice)
    epilog = r.choice([[], [], ["free D 0"], ["del D 0", "new D 0"], ["free M 0", "free M 1", "free D 0"]])
    return {"seed": seed, "prolog": prolog, "threads": threads, "epilog": epilog, "first": r.randint(1, n), "mode": mode}


# ------------------------------------------------------------------ schedules

def conflicts(trace, nthreads):
    """From a traced run: pairs of accesses to one address by different threads, at least one a write."""
    byaddr = {}
    for (tid, kind, size, step, addr) in trace:
        if kind not in (1, 2, 5):
            continue
        byaddr.setdefault(addr, []).append((tid, step, kind))
    pts = []
    for addr, acc in byaddr.items():
        tids = set(a[0] for a in acc)
        if len(tids) < 2 or not any(a[2] in (2, 5) for a in acc):
            continue
        first = {}
        last = {}
        for (tid, step, kind) in acc:
            first.setdefault(tid, step)
            last[tid] = step
        pts.append((addr, first, last, acc))
    return pts


def schedules(r, steps, confl, count):
    """Switch lists: (thread, local step, target).  Mix of race-directed and uniform random preemptions."""
    out = [[]]
    tids = sorted(steps)
    for _ in range(count * 3):
        if len(out) >= count:
            break
        x = r.random()
        sw = []
        if confl and x < 0.65:
            addr, first, last, acc = r.choice(confl)
            (ta, sa, ka) = r.choice(acc)
            others = [t for t in first if t != ta]
            if not others:
                continue
            tb = r.choice(others)
            # stop A right before (or right after) its access, let B run; optionally come back after B's access
            sw.append((ta, max(1, sa + r.choice([0, 0, 1])), tb))
            if r.random() < 0.5:
                sb = r.choice([s for (t, s, k) in acc if t == tb])
                sw.append((tb, sb + r.choice([0, 1, 1]), ta))
        elif confl and x < 0.8 and len(tids) >= 3:
            # three parties: stop A inside its access, let B run up to one of its accesses, then a third thread
            addr, first, last, acc = r.choice(confl)
            (ta, sa, ka) = r.choice(acc)
            others = [t for t in tids if t != ta]
            tb = r.choice(others)
            tc = r.choice([t for t in others if t != tb])
            sw.append((ta, max(1, sa + r.choice([0, 0, 1])), tb))
            if steps.get(tb, 0) > 0:
                sw.append((tb, r.randint(1, steps[tb]), tc))
        else:
            for _k in range(r.choice([1, 1, 2, 3])):
                ta = r.choice(tids)
                if steps[ta] <= 0:
                    continue
                others = [t for t in tids if t != ta]
                sw.append((ta, r.randint(1, steps[ta]), r.choice(others)))
        if sw and sw not in out:
            out.append(sw)
    return out


# ------------------------------------------------------------------ oracle

def expected_model(scn):
    m = hm.Model(KINDS)
    res = {"P": [], "W": {}}
    for op in scn["prolog"]:
        res["P"].append(hm.apply(m, op.split()).outcome)
    for i, ops in enumerate(scn["threads"]):
        res["W"][i + 1] = [hm.apply(m, op.split()).outcome for op in ops]
    for op in scn.get("epilog", []):
        hm.apply(m, op.split())
    return m, res


def judge(scn, out, m, exp):
    """Outcome-based oracle: returns list of (class, text)."""
    if out["status"] == 78:
        kind = "simrt-report"
        text = out["stderr"].strip().splitlines()[-1] if out["stderr"].strip() else "runtime report"
        for line in out["stderr"].splitlines():
            if line.startswith("SIMRT-REPORT"):
                text = line
                kind = line.split("kind=")[1].split()[0]
        if kind == "deadlock":
            return [("deadlock", text)]
        if kind == "engine":
            return [("ENGINE", text)]
        return [(kind, text)]
    if out["sig"] in (24, 9):
        return [("hang", "the run used 60 s of CPU time without terminating (a run takes well under a second)")]
    if out["sig"]:
        return [("crash", "signal %d" % out["sig"])]
    if out["status"] != 0:
        return [("abnormal-exit", "exit status %s: %s" % (out["status"], out["stderr"][-200:]))]
    bad = []
    for t, want in exp["W"].items():
        got = [x.split(" ", 1)[0] for x in out["W"].get(t, [])]
        if got != want:
            k = next((i for i in range(min(len(got), len(want))) if got[i] != want[i]), min(len(got), len(want)))
            bad.append(("wrong-outcome", "thread %d operation %d `%s`: %s, sequentially it is %s" %
                        (t, k, scn["threads"][t - 1][k] if k < len(scn["threads"][t - 1]) else "?", got[k] if k < len(got) else "missing",
                         want[k] if k < len(want) else "missing")))
            return bad
    v = hcheck._compare(m, out["obs"], -1, ["<after-join>"], hm.Expect("ok"), {}, {}, {}, {"max_handles_on_object": 0, "pool_growth_in_reserve": 0},
                        check_max=False)
    for x in v:
        cls = {"allocated": "miscount", "live-count": "leak-or-lost-object", "handle-state": "lost-reference",
               "wrong-bytes": "wrong-bytes"}.get(x[1], x[1])
        bad.append((cls, x[2].replace("after op -1 `<after-join>`", "after the join")))
    return bad


def explore_scenario(seed, nsched):
    """One workload, one traced dry run, nsched scripted schedules.  Returns summary dict."""
    srv = server()
    scn = generate(seed)
    m, exp = expected_model(scn)
    r = common.rng(seed, "c30sched")
    dry = srv.run(scn, [], trace=True)
    res = {"seed": seed, "nthreads": len(scn["threads"]), "runs": 1, "violations": [], "fired": 0, "steps": sum(dry["steps"].values()),
           "distinct": set(), "conflicts": 0, "scn_hash": hashlib.sha256(json.dumps(scn, sort_keys=True).encode()).hexdigest()[:12],
           "deadlocks": 0, "sample": None}
    v = judge(scn, dry, m, exp)
    if v:
        res["violations"].append({"class": v[0][0], "text": v[0][1], "scenario": scn, "switches": []})
        return res
    trace = srv.read_trace()
    confl = conflicts(trace, len(scn["threads"]))
    res["conflicts"] = len(confl)
    for sw in schedules(r, dry["steps"], confl, nsched):
        if not sw:
            continue
        m2, exp2 = expected_model(scn)
        out = srv.run(scn, sw)
        res["runs"] += 1
        res["steps"] += sum(out["steps"].values())
        res["fired"] += out["fired"]
        if out["fired"]:
            res["distinct"].add(res["scn_hash"] + ":" + ",".join("%d.%d>%d" % s for s in sw))
        v = judge(scn, out, m2, exp2)
        if v and v[0][0] == "deadlock":
            res["deadlocks"] += 1
            continue
        if v:
            res["violations"].append({"class": v[0][0], "text": v[0][1], "scenario": scn, "switches": [list(s) for s in sw]})
            break
    res["sample"] = {"prolog": scn["prolog"], "threads": scn["threads"], "steps_per_thread": dry["steps"], "conflicting_addresses": len(confl)}
    res["distinct"] = sorted(res["distinct"])
    return res


def replay_one(scn, switches):
    srv = server()
    m, exp = expected_model(scn)
    out = srv.run(scn, [tuple(s) for s in switches])
    return judge(scn, out, m, exp), out


def minimise(scn, switches, cls):
    """Drop switches, threads' operations and whole threads while the class persists."""
    def fails(s, sw):
        v, _ = replay_one(s, sw)
        return bool(v) and v[0][0] == cls
    sw = [list(x) for x in switches]
    cur = json.loads(json.dumps(scn))
    if not fails(cur, sw):
        return cur, sw
    # drop operations thread by thread (switch indices refer to scheduling points, so re-search after dropping)
    i = 0
    while i < len(sw) and len(sw) > 1:
        cand = sw[:i] + sw[i + 1:]
        if fails(cur, cand):
            sw = cand
        else:
            i += 1
    # threads that take no part in the remaining switches: empty their op lists
    involved = set(x[0] for x in sw) | set(x[2] for x in sw)
    for t in range(len(cur["threads"]), 0, -1):
        if t in involved or not cur["threads"][t - 1]:
            continue
        cand = json.loads(json.dumps(cur))
        cand["threads"][t - 1] = []
        if fails(cand, sw):
            cur = cand
    # trailing operations of the involved threads (operations after the last switch of a thread cannot
    # matter for a report raised earlier; checked by replaying)
    for t in sorted(involved):
        ops = cur["threads"][t - 1]
        while len(ops) > 1:
            cand = json.loads(json.dumps(cur))
            cand["threads"][t - 1] = ops[:-1]
            if fails(cand, sw):
                cur = cand
                ops = cur["threads"][t - 1]
            else:
                break
    return cur, sw
