"""Check driver shared by C01-C05 (engine handlesim)."""
import hashlib
import json
import time

from . import common, hcheck

TITLES = {"C01": "handle histories", "C02": "memory operation histories", "C03": "pool histories (placement/contents)",
          "C04": "pool histories (accounting)", "C05": "allocation histories (device accounting)"}


_tolerate = ()


def _corpus(prop):
    import os
    d = os.path.join(common.VERIF, "corpus", prop)
    out = []
    try:
        names = sorted(os.listdir(d))
    except OSError:
        return out
    for n in names:
        if n.endswith(".json"):
            try:
                with open(os.path.join(d, n)) as f:
                    out.append([l.split() for l in json.load(f)["history"]])
            except (OSError, ValueError, KeyError):
                pass
    return out


def _task(t):
    prop, seed = t
    if isinstance(seed, list):        # a corpus history
        ops, fam = seed, ["corpus"]
        seed = 0
    else:
        ops, fam = hcheck.generate(seed, prop)
    r = hcheck.check_history(ops, tolerate=_tolerate)
    if r.get("undefined"):
        # the generator must never emit an operation with undefined behaviour (only shrinking may create one)
        r["violations"] = [("ENGINE", "generator-emitted-undefined-op", "seed %s: %s" % (seed, r["undefined"]), 0)]
    r["seed"] = seed
    r["families"] = fam
    r["ops"] = ops if r["violations"] else None
    r["sample_ops"] = [" ".join(o) for o in ops if o[0] != "new"][:40]
    return r


def _replay_task(ops):
    return hcheck.check_history(ops)


def _min_task(t):
    ops, prop, cls = t
    mo = hcheck.minimise(ops, prop, cls, tolerate=_tolerate)
    a = hcheck.check_history(mo, tolerate=_tolerate)
    b = hcheck.check_history(mo, tolerate=_tolerate)
    return mo, a, b


def signature(prop, v, ops):
    """class + the call form (for missing exceptions) or the operation at which the oracle fired +
    the kinds of operations left in the minimised history."""
    cls = v[1]
    if cls == "missing-exception":
        return "%s|missing-exception|%s" % (prop, (v[4] if len(v) > 4 else "").replace(" ", "_"))
    idx = v[3]
    at = ops[idx][0] if idx < len(ops) else "end-of-history"
    kinds = sorted(set(o[0] + (":" + o[1] if o[0] in ("free", "del", "assign", "copy", "swap", "norefs") else "") for o in ops if o[0] != "new"))
    return "%s|%s|at=%s|ops=%s" % (prop, cls, at, ",".join(kinds))


def main(prop, tier):
    hcheck.ensure_engine()
    seed = common.base_seed()
    rep = common.Report(prop, tier, "exploration", seed)
    global _tolerate
    # recorded missing-exception findings are tolerated *inside* a run (the run notes them and goes on),
    # every other signature stops the run and is minimised
    _tolerate = frozenset(k for p in TITLES for k in common.load_known(p) if "|missing-exception|" in k)
    known_hits = {}
    pool = common.Pool()
    deadline = time.time() + common.budget(tier, 60, 900)
    agg = {}
    fam_count = {}
    raw = {}
    states = set()
    other_props = {}
    crashes = [0]
    truncated = [0]

    def tasks():
        for h in _corpus(prop):
            yield (prop, h)
        i = 0
        while True:
            yield (prop, common.run_seed(seed, i, prop))
            i += 1

    pending_min = []

    def on_result(task, r):
        rep.evaluations += 1
        for k, v in r["stats"].items():
            if k.startswith("max_") or k.endswith("_max"):
                agg[k] = max(agg.get(k, 0), v)
            else:
                agg[k] = agg.get(k, 0) + v
        for f in r["families"]:
            fam_count[f] = fam_count.get(f, 0) + 1
        states.add(r["state_hash"])
        if r["stats"]["ops"] >= 5:
            rep.nontrivial.add(r["hash"])
        if len(rep.samples) < 3 and r["stats"]["ops"] >= 10:
            rep.samples.append({"seed": r["seed"], "families": r["families"], "history": r["sample_ops"],
                                "history_hash": r["hash"], "result": "no violation" if not r["violations"] else str(r["violations"][0][:3])})
        for note, c in r.get("known_hits", {}).items():
            known_hits[note] = known_hits.get(note, 0) + c
        if r.get("truncated_after_tolerated"):
            truncated[0] += 1
        for v in r["violations"]:
            if v[0] == "ENGINE":
                rep.engine_errors.append(v[2])
            elif v[0] != prop:
                other_props[v[0] + "|" + v[1]] = other_props.get(v[0] + "|" + v[1], 0) + 1
            else:
                key = (v[1], v[4] if len(v) > 4 else "")
                raw[key] = raw.get(key, 0) + 1
                if raw[key] == 1 and len(pending_min) < 8:
                    pending_min.append((r["ops"], prop, v[1]))

    n, errors = pool.run(_task, tasks(), deadline, on_result)
    for (t, e) in errors:
        rep.engine_errors.append(e)
    # minimise, gate (two replays must agree), classify
    for (mo, a, b) in pool.map(_min_task, pending_min) if pending_min else []:
        va = [v for v in a["violations"] if v[0] == prop]
        vb = [v for v in b["violations"] if v[0] == prop]
        if not va or not vb or va[0][1] != vb[0][1] or a["hash"] != b["hash"]:
            rep.engine_errors.append("minimised history did not replay deterministically: %s" % json.dumps(mo)[:800])
            continue
        v = va[0]
        sig = signature(prop, v, mo)
        replay = {"property": prop, "engine": "handlesim", "class": v[1], "signature": sig,
                  "history": [" ".join(o) for o in mo], "expected_hash": a["hash"], "violation": v[2]}
        rep.add_violation(sig, replay, v[2] + "   [minimised history: " + "; ".join(" ".join(o) for o in mo if o[0] != "new") + "]")
    pool.close()
    for note, c in sorted(known_hits.items()):
        sig = "%s|missing-exception|%s" % (prop, note.replace(" ", "_"))
        for k in rep.known:
            if k.endswith("|missing-exception|" + note.replace(" ", "_")):
                rep.known_seen[k] = rep.known[k] + " (seen %d times in this run)" % c
    wall = max(time.time() - rep.t0, 1e-9)
    rep.rule = ("one run = one seeded history of 10-70 operations over 3 device, 10 memory, 3 pool, 3 kernel and 3 stream handle slots "
                "(operation families enabled swarm-style per run: %s) executed by the real library under ASan and by the reference "
                "model, compared after every operation; non-trivial = at least 5 operations executed; distinct = hash of the "
                "(operation, outcome) sequence" % TITLES[prop])
    rep.cov.update({
        "operations_executed": agg.get("ops", 0),
        "expected_exceptions_exercised": agg.get("exceptions_expected", 0),
        "probes": {k: v for k, v in agg.items() if k not in ("ops", "exceptions_expected")},
        "families_enabled_runs": fam_count,
        "distinct_model_end_states": len(states),
        "runs_cut_short_after_a_tolerated_recorded_deviation_left_the_generators_contract": truncated[0],
        "raw_violations_by_class": {"%s/%s" % k: v for k, v in raw.items()},
        "violations_of_other_properties_seen_and_left_to_their_own_check": other_props,
        "seeds_per_hour": round(rep.evaluations / wall * 3600.0, 1),
        "faults_injected": "none: in this configuration the simulator chooses only the operation sequence (see DESIGN.md section 1); "
                           "invalid arguments and uninitialized operands are generated as inputs",
        "components": {"real": ["libocca built from /repo's working tree with -fsanitize=address and -DLIBOCCA_OCCA_VERIF",
                                 "Serial and OpenMP devices, real kernels (prebuilt, loaded from a warm cache)"],
                       "stub": ["none"]},
    })
    rep.assumptions = [
        "own_host_pointer and detach() are not generated; a zero-length view of a pool reservation may count as nothing or as its aligned block in reserved()",
        "fresh device memory is indeterminate: bytes are compared only once written",
        "pool placement (offsets, pool size) is read from the implementation and checked against invariants, never predicted",
        "overlapping memcpy ranges and kernels with partially overlapping arguments are not generated (undefined behaviour)",
    ]
    return rep.finish()


def replay(prop, path):
    hcheck.ensure_engine()
    with open(path) as f:
        rp = json.load(f)
    ops = [l.split() for l in rp["history"]]
    tol = frozenset(k for p in TITLES for k in common.load_known(p) if "|missing-exception|" in k)
    r = hcheck.check_history(ops, tolerate=tol)
    vs = [v for v in r["violations"] if v[0] == prop]
    print("replay: %s hash=%s (recorded %s)" % ([v[:3] for v in r["violations"]], r["hash"], rp.get("expected_hash")))
    if vs and vs[0][1] == rp["class"]:
        print("VIOLATION property=%s replay=%s" % (prop, path))
        return 1
    return 0
