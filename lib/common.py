"""Shared driver code: seeds, worker pool, ddmin, known findings, evidence, reporting."""
import ctypes
import hashlib
import json
import os
import random
import sys
import time
import traceback
from concurrent.futures import ProcessPoolExecutor, FIRST_COMPLETED, wait
import multiprocessing

VERIF = os.path.dirname(os.path.dirname(os.path.abspath(__file__)))
_OUT = os.environ.get("VERIF_OUT") or VERIF       # (override: isolated trial runs of seeded changes)
EVIDENCE = os.path.join(_OUT, "evidence")
REPLAYS = os.path.join(_OUT, "replays")
KNOWN = os.path.join(VERIF, "KNOWN_FINDINGS.txt")

NWORKERS = int(os.environ.get("VERIF_WORKERS", "14"))


def say(msg):
    sys.stderr.write(msg + "\n")
    sys.stderr.flush()


def base_seed():
    try:
        return int(os.environ.get("VERIF_SEED", "1"))
    except ValueError:
        return 1


def run_seed(base, index, salt=""):
    """Per-run seed: a pure function of VERIF_SEED, the run index and a salt."""
    h = hashlib.sha256(("%d/%d/%s" % (base, index, salt)).encode()).digest()
    return int.from_bytes(h[:6], "big")


def rng(seed, salt=""):
    return random.Random(run_seed(seed, 0, "rng" + salt))


def budget(tier, quick_s, thorough_s):
    b = os.environ.get("VERIF_BUDGET_S")
    if b:
        return float(b)
    return quick_s if tier == "quick" else thorough_s


# ---------------------------------------------------------------- workers

CLONE_NEWNS = 0x00020000
MS_BIND, MS_REC, MS_PRIVATE = 4096, 16384, 1 << 18
_worker_id = None


def private_mount(src, dst):
    """Give this process a private mount namespace with `src` bind-mounted at `dst`, so that
    every worker sees its sandbox at the same absolute path.  Returns True on success."""
    if os.environ.get("VERIF_NO_NS"):
        return False
    libc = ctypes.CDLL(None, use_errno=True)
    os.makedirs(src, exist_ok=True)
    os.makedirs(dst, exist_ok=True)
    if libc.unshare(CLONE_NEWNS) != 0:
        return False
    if libc.mount(b"none", b"/", None, MS_REC | MS_PRIVATE, None) != 0:
        return False
    if libc.mount(src.encode(), dst.encode(), None, MS_BIND, None) != 0:
        return False
    return True


def _init_worker(counter, initfn):
    global _worker_id
    with counter.get_lock():
        _worker_id = counter.value
        counter.value += 1
    random.seed(0)
    if initfn:
        initfn(_worker_id)


def worker_id():
    return _worker_id


def _guard(fn, task):
    try:
        return ("ok", fn(task))
    except Exception as e:      # engine errors are results, not crashes of the pool
        return ("error", "%s: %s\n%s" % (type(e).__name__, e, traceback.format_exc()))


class Pool:
    def __init__(self, initfn=None, nworkers=None):
        ctx = multiprocessing.get_context("fork")
        self.counter = ctx.Value("i", 0)
        self.n = nworkers or NWORKERS
        self.ex = ProcessPoolExecutor(max_workers=self.n, mp_context=ctx,
                                      initializer=_init_worker, initargs=(self.counter, initfn))

    def run(self, fn, task_iter, deadline, on_result, max_tasks=None):
        """Feed tasks from task_iter to workers until the deadline (or exhaustion); call
        on_result(task, result) in completion order."""
        pending = {}
        n = 0
        it = iter(task_iter)
        exhausted = False
        errors = []
        while True:
            while not exhausted and len(pending) < self.n + 2 and time.time() < deadline \
                    and (max_tasks is None or n < max_tasks):
                try:
                    t = next(it)
                except StopIteration:
                    exhausted = True
                    break
                pending[self.ex.submit(_guard, fn, t)] = t
                n += 1
            if not pending:
                break
            done, _ = wait(list(pending), return_when=FIRST_COMPLETED)
            for f in done:
                t = pending.pop(f)
                kind, res = f.result()
                if kind == "error":
                    errors.append((t, res))
                else:
                    on_result(t, res)
            if (time.time() >= deadline or (max_tasks is not None and n >= max_tasks)) and not pending:
                break
        return n, errors

    def map(self, fn, tasks):
        futs = [self.ex.submit(_guard, fn, t) for t in tasks]
        out = []
        for f in futs:
            kind, res = f.result()
            if kind == "error":
                raise RuntimeError(res)
            out.append(res)
        return out

    def close(self):
        self.ex.shutdown(wait=True, cancel_futures=True)


# ---------------------------------------------------------------- shrinking

def ddmin(items, fails, max_tests=400):
    """Classic delta debugging on a list: smallest sublist (1-minimal up to the test budget)
    for which fails(sublist) is True.  fails(items) must be True."""
    n = 2
    tests = 0
    items = list(items)
    while len(items) >= 2 and tests < max_tests:
        chunk = max(1, len(items) // n)
        subsets = [items[i:i + chunk] for i in range(0, len(items), chunk)]
        reduced = False
        for i, sub in enumerate(subsets):
            comp = [x for j, s in enumerate(subsets) if j != i for x in s]
            tests += 1
            if comp and fails(comp):
                items = comp
                n = max(n - 1, 2)
                reduced = True
                break
            if tests >= max_tests:
                break
        if not reduced:
            if n >= len(items):
                break
            n = min(len(items), n * 2)
    if len(items) == 1 and tests < max_tests:
        if fails([]):
            return []
    return items


# ---------------------------------------------------------------- known findings

def load_known(prop):
    """Lines 'known: property=<id> key=<signature> <text>' -> {signature: text}."""
    out = {}
    try:
        with open(KNOWN) as f:
            for line in f:
                line = line.strip()
                if not line.startswith("known:"):
                    continue
                parts = line.split(None, 3)
                if len(parts) < 3 or parts[1] != "property=" + prop or not parts[2].startswith("key="):
                    continue
                out[parts[2][4:]] = parts[3] if len(parts) > 3 else ""
    except OSError:
        pass
    return out


# ---------------------------------------------------------------- evidence / reporting

class Report:
    """Collects what a check run covered and found; writes evidence; prints verdict lines."""

    def __init__(self, prop, tier, level, seed):
        self.prop, self.tier, self.level, self.seed = prop, tier, level, seed
        self.t0 = time.time()
        self.evaluations = 0
        self.nontrivial = set()
        self.samples = []
        self.rule = ""
        self.cov = {}
        self.assumptions = []
        self.violations = []      # (signature, replay_path, text)
        self.known_seen = {}      # signature -> text
        self.engine_errors = []
        self.known = load_known(prop)

    def add_violation(self, signature, replay_obj, text):
        """Record a (minimised, gated) violation.  Known signatures become KNOWN-FINDING."""
        if signature in self.known:
            self.known_seen[signature] = self.known[signature] or text
            return False
        for (s, _, _) in self.violations:
            if s == signature:
                return True
        os.makedirs(os.path.join(REPLAYS, self.prop), exist_ok=True)
        name = "%s-%s.json" % (self.seed, hashlib.sha256(signature.encode()).hexdigest()[:10])
        path = os.path.join(REPLAYS, self.prop, name)
        with open(path, "w") as f:
            json.dump(replay_obj, f, indent=1, sort_keys=True)
        self.violations.append((signature, path, text))
        return True

    def finish(self):
        wall = time.time() - self.t0
        cov = {
            "evaluations": int(self.evaluations),
            "distinct_nontrivial": len(self.nontrivial),
            "rule": self.rule,
            "samples": self.samples[:3] if self.samples else [],
            "exhaustive": bool(self.cov.get("exhaustive", False)),
            "runs_per_hour": round(self.evaluations / wall * 3600.0, 1) if wall > 0 else 0,
        }
        cov.update(self.cov)
        ev = {
            "property_id": self.prop, "tier": self.tier, "seed": int(self.seed), "level": self.level,
            "coverage": cov, "assumptions": self.assumptions, "wall_s": round(wall, 2),
            "violations": len(self.violations),
            "known_findings_seen": sorted(self.known_seen),
            "engine_errors": len(self.engine_errors),
        }
        os.makedirs(EVIDENCE, exist_ok=True)
        tmp = os.path.join(EVIDENCE, self.prop + ".json.tmp")
        with open(tmp, "w") as f:
            json.dump(ev, f, indent=1, sort_keys=True, default=str)
        os.replace(tmp, os.path.join(EVIDENCE, self.prop + ".json"))
        for sig in sorted(self.known_seen):
            print("KNOWN-FINDING: property=%s key=%s %s" % (self.prop, sig, self.known_seen[sig]))
        for (sig, path, text) in self.violations:
            print("VIOLATION property=%s replay=%s" % (self.prop, path))
            print("  class/signature: %s" % sig)
            print("  %s" % text)
        if self.engine_errors:
            for e in self.engine_errors[:5]:
                say("ENGINE ERROR: %s" % (str(e)[:3000]))
        sys.stdout.flush()
        if self.violations:
            return 1
        if self.engine_errors:
            return 2
        say("%s %s: %d runs, %d distinct non-trivial, %.1fs, no new violation" %
            (self.prop, self.tier, self.evaluations, len(self.nontrivial), wall))
        return 0
