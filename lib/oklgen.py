"""oklgen — seeded generator of OKL kernels whose @outer and @inner iterations are independent by
construction (each iteration writes its own output element; everything shared between iterations
goes through @shared + @barrier inside one outer iteration, or through commutative @atomic updates).

Fixed signature:  k(const int n, const int *in0, const int *in1, int *out0, int *out1, float *fout)
with in*/out* of 64 ints and fout of 8 floats (allocated with guard zones by the harness)."""
import random

NOUT = 64


def gen(seed):
    r = random.Random(seed)
    g = _Gen(r)
    return g.kernel()


class _Gen:
    def __init__(self, r):
        self.r = r
        self.helpers = []
        self.features = set()
        # a value computed by host-side code before the first @outer loop and used inside the loops (the GPU
        # translations must hand it to the device kernel as an extra argument)
        self.hostvar = r.random() < 0.15

    def kernel(self):
        r = self.r
        nests = [self.nest(k) for k in range(r.choice([1, 1, 2]))]
        helpers = ""
        if "helper" in self.features:
            helpers = "int hf(const int x) {\n  return 3 * x + 1;\n}\n\n"
        body = "".join(nests)
        if "@atomic out1[7] += 2;" in body and "out1[7] = out1[7] +" in body:
            # one location updated through the basic form (+=) and through a general form (assignment / block)
            self.features.add("atomic-mixed-forms")
        if "host-decl" in self.features:
            body = "  const int m = n / 2 + 3;\n" + body
        sig = ["const int n", "const int *in0", "const int *in1", "int *out0", "int *out1", "float *fout"]
        if r.random() < 0.3:
            self.features.add("restrict")
            sig[1] = "@restrict " + sig[1]
            if r.random() < 0.5:
                sig[2] = "@restrict " + sig[2]
        if r.random() < 0.3 and "out0[g] =" in body:
            # out0 viewed as an 8 x 8 array: out0(g % 8, g / 8) is out0[g]
            self.features.add("dim")
            sig[3] = "int *out0 @dim(8, 8)"
            parts = body.split("out0[g] =")
            # (index arguments with operators that bind weaker than + : they must be used as complete expressions)
            body = parts[0] + "".join((r.choice(["out0(g % 8, g / 8) =", "out0(g % 8, g / 8) =", "out0(g > 7 ? g % 8 : g, g >> 3) ="])
                                       if r.random() < 0.7 else "out0[g] =") + x for x in parts[1:])
            if "out0(g > 7 ? g % 8 : g, g >> 3)" in body:
                self.features.add("dim-expression-index")
        lines = body.split("\n")
        out = []
        for ln in lines:
            if ln.startswith("  for (") and ln.endswith("@outer) {"):
                if r.random() < 0.2:
                    self.features.add("max_inner_dims")
                    out.append("  @max_inner_dims(8)")
                if r.random() < 0.15:
                    self.features.add("simd_length")
                    ln = ln.replace("; @outer) {", "; @outer @simd_length(4)) {")
            out.append(ln)
        body = "\n".join(out)
        src = helpers + ("@kernel void k(" + ", ".join(sig) + ") {\n" + body + "}\n")
        n = r.choice([0, 1, 4, 8, 12, 16, 16, 24, 32])
        return {"source": src, "n": n, "features": sorted(self.features)}

    # one @outer nest
    def nest(self, k):
        r = self.r
        I = r.choice([2, 4, 4, 8])                 # inner extent
        two_outer = r.random() < 0.25
        inner2 = r.random() < 0.2 and I >= 4      # two nested inner loops (I = I1 * 2)
        self.I = I
        use_shared = r.random() < 0.6
        use_excl = r.random() < 0.55
        use_excl_ptr = r.random() < 0.3
        use_excl_arr = r.random() < 0.2
        self.use_excl_arr = use_excl_arr
        phases = r.choice([1, 2, 2, 3]) if (use_shared or use_excl) else r.choice([1, 1, 2])
        ind = "  "
        out = ""
        # outer header(s): every (o, i) pair maps to a distinct g < 64
        form = r.choice(["up", "up", "le", "down", "tile", "rev", "gt"]) if not two_outer else "two"
        if form == "tile" and (use_shared or use_excl or use_excl_ptr or inner2 or phases > 1):
            form = "up"
        if form == "tile":
            self.use_excl_arr = use_excl_arr = False
        if form == "tile" and r.random() < 0.3:
            # two nested tiled loops (2D tiling): the inner loop's @outer part has to float up past the outer loop's @inner part
            self.features.add("tile")
            self.features.add("tile-2d")
            body = self.stmts(1, 0, "g", False, False, False, None, "        ")
            ty, tx = r.choice([2, 4]), r.choice([2, 4])
            return ("  for (int gy = 0; gy < 8; ++gy; @tile(%d, @outer, @inner)) {\n"
                    "    for (int gx = 0; gx < n / 8; ++gx; @tile(%d, @outer, @inner)) {\n"
                    "        const int g = gy * (n / 8) + gx;\n" % (ty, tx)) + body + "    }\n  }\n"
        if form == "tile":
            self.features.add("tile")
            body = self.stmts(1, 0, "g", False, False, False, None, "      ")
            tsize = str(I)
            if I == 4 and r.random() < 0.3:
                tsize = r.choice(["2 + 2", "2 * 2"])
                self.features.add("tile-size-expression")
            v = r.random()
            if v < 0.5:
                head = "for (int g = 0; g < n; ++g"
            elif v < 0.65:
                head = "for (int g = 0; g < n; g += %d" % r.choice([2, 3])
                self.features.add("tile-stride")
            elif v < 0.85:
                head = "for (int g = n - 1; g >= 0; --g"
                self.features.add("tile-down")
            else:
                head = "for (int g = n - 1; g >= 0; g -= 2"
                self.features.add("tile-stride")
                self.features.add("tile-down")
            return ("  %s; @tile(%s, @outer, @inner)) {\n" % (head, tsize)) + body + "  }\n"
        if form == "up":
            start = 0
            if r.random() < 0.25:
                # a loop that does not start at 0: for small n the sequential loop is empty (and its trip count
                # formula negative)
                start = r.choice([8, 16])
                self.features.add("outer-start-nonzero")
            out += "  for (int o = %d; o < n; o += %d; @outer) {\n" % (start, I)
            base = "o"
        elif form == "le":
            out += "  for (int o = 0; o <= n - %d; o += %d; @outer) {\n" % (I, I)
            base = "o"
            self.features.add("le-loop")
        elif form == "rev":
            # the bound on the left of the comparison
            out += "  for (int o = 0; n > o; o += %d; @outer) {\n" % I
            base = "o"
            self.features.add("bound-on-the-left")
        elif form == "gt":
            # strict > with a post-decrement
            out += "  for (int ob = n / %d; ob > 0; ob--; @outer) {\n" % I
            base = "((ob - 1) * %d)" % I
            self.features.add("gt-loop")
        elif form == "down":
            out += "  for (int ob = n / %d - 1; ob >= 0; --ob; @outer) {\n" % I
            base = "(ob * %d)" % I
            self.features.add("down-loop")
        else:
            self.features.add("two-outer")
            out += "  for (int oa = 0; oa < 2; ++oa; @outer) {\n    for (int ob = 0; ob < n / %d; ++ob; @outer) {\n" % (2 * I)
            base = "((oa * (n / %d) + ob) * %d)" % (2 * I, I)
            ind = "    "
        # explicit loop indices: @outer(1)/@outer(0) and @inner(1)/@inner(0) in the natural order
        if r.random() < 0.25 and (form == "two" or inner2):
            self.features.add("explicit-index")
            # either order is used in OCCA's own translator tests: (1 outside, 0 inside) is what OKL assigns by itself,
            # (0 outside, 1 inside) maps the outermost loop to the x dimension
            rev = r.random() < 0.5
            if rev:
                self.features.add("explicit-index-outermost-is-0")
            ix = ("(0)", "(1)") if rev else ("(1)", "(0)")
            if form == "two":
                out = out.replace("++oa; @outer)", "++oa; @outer%s)" % ix[0]).replace("++ob; @outer)", "++ob; @outer%s)" % ix[1])
            self.explicit_inner = ix if inner2 else False
        else:
            self.explicit_inner = False
        # a regular loop between the @outer loop and the @inner loops: the phases run twice
        mid = (use_shared or use_excl) and phases > 1 and r.random() < 0.25
        decl = ""
        if use_shared:
            decl += ind + "  @shared int s[%d];\n" % I
            self.features.add("shared")
        if use_excl:
            decl += ind + "  @exclusive int e;\n"
            self.features.add("exclusive")
        if use_excl_ptr:
            decl += ind + "  @exclusive int *p;\n"
            self.features.add("exclusive-pointer")
        if use_excl_arr:
            decl += ind + "  @exclusive int ea[2];\n"
            self.features.add("exclusive-array")
        out += decl
        # OKL inserts the barriers between sibling @inner loops itself when @shared data is involved
        # (okl/add_barriers); some kernels spell them out, some rely on that
        explicit = r.random() < 0.6 or mid
        first_dir = "up"
        if mid:
            self.features.add("mid-loop")
            out += ind + "  for (int rep = 0; rep < 2; ++rep) {\n"
            ind += "  "
        for ph in range(phases):
            if ph > 0 and explicit:
                out += ind + "  @barrier();\n"
                self.features.add("barrier")
            elif ph > 0:
                self.features.add("implicit-barrier")
            if inner2:
                self.features.add("inner2")
                ix = self.explicit_inner if self.explicit_inner else ("", "")
                out += ind + "  for (int ia = 0; ia < %d; ++ia; @inner%s) {\n" % (I // 2, ix[0])
                out += ind + "    for (int ib = 0; ib < 2; ++ib; @inner%s) {\n" % ix[1]
                iexpr, pad = "(ia * 2 + ib)", ind + "      "
            else:
                # without explicit barriers OKL only orders what goes through @shared memory: out0[g] may then be written
                # in several phases only if the same work item writes it each time, i.e. all phases map positions to g alike
                if explicit or ph == 0:
                    loop = self.r.choice(["up", "up", "down"])
                    first_dir = loop if ph == 0 else first_dir
                else:
                    self.r.choice(["up", "up", "down"])      # (keeps the random stream aligned)
                    loop = first_dir
                iexpr = "i"
                if loop == "up" and r.random() < 0.15:
                    # an @inner loop that starts at 1: work item k runs i = k + 1
                    out += ind + "  for (int i = 1; i < %d; ++i; @inner) {\n" % (I + 1)
                    self.features.add("inner-start-nonzero")
                    iexpr = "(i - 1)"
                elif loop == "down" and r.random() < 0.3:
                    # strict > with a post-decrement: work item k runs i = I - k
                    out += ind + "  for (int i = %d; i > 0; i--; @inner) {\n" % I
                    self.features.add("down-inner")
                    self.features.add("gt-inner")
                    iexpr = "(i - 1)"
                elif loop == "up":
                    out += ind + "  for (int i = 0; i < %d; ++i; @inner) {\n" % I
                else:
                    out += ind + "  for (int i = %d; i >= 0; --i; @inner) {\n" % (I - 1)
                    self.features.add("down-inner")
                pad = ind + "    "
            g = "(%s + %s)" % (base, iexpr)
            out += pad + "const int g = %s;\n" % g
            out += self.stmts(phases, ph, "g", use_shared, use_excl, use_excl_ptr, iexpr, pad)
            if inner2:
                out += ind + "    }\n"
            out += ind + "  }\n"
        if mid:
            # the next repetition rewrites what this one's last phase reads
            out += ind + "  @barrier();\n"
            ind = ind[:-2]
            out += ind + "  }\n"
        out += ind + "}\n"
        if form == "two":
            out += "  }\n"
        return out

    def expr(self, g, depth):
        """(A unary operator is always parenthesised when it follows a binary one: the OKL parser of this tree rejects
        `2 * -1` - "Unable to form an expression" - already at the pinned commit; that is front-end territory, C12-C16.)
        A random integer expression over in0[g] (0..9), in1[g] (0..6), g and constants whose value is defined in C++
        (no division by zero, no overflow, shifts by 0..2) - what matters is that every backend re-prints it with the
        meaning the source has: precedence, associativity, unary operators, ternaries."""
        r = self.r
        if depth <= 0 or r.random() < 0.25:
            return r.choice(["in0[%s]" % g, "in1[%s]" % g, str(g), str(r.randint(0, 9)), "in0[%s]" % g])
        def P(e):
            return "(%s)" % e if e[0] in "-!~" else e
        a, b = P(self.expr(g, depth - 1)), P(self.expr(g, depth - 1))
        x = r.random()
        if x < 0.18:
            return "%s - (%s - %s)" % (a, b, P(self.expr(g, depth - 1)))
        if x < 0.30:
            return "(%s + %s) * %s" % (a, b, r.choice(["2", "3", "in1[%s]" % g]))
        if x < 0.40:
            return "%s / (((%s) & 3) + 1)" % (a, b)
        if x < 0.50:
            return "%s %% (((%s) & 3) + 2)" % (a, b)
        if x < 0.58:
            return "-(%s) - (-(%s))" % (a, b)
        if x < 0.66:
            return "(((%s) & 1023) << ((%s) & 3)) >> 1" % (a, b)
        if x < 0.74:
            return "((%s) & 7) | ((%s) ^ 5)" % (a, b)
        if x < 0.84:
            return "((%s) > (%s) ? (%s) : (%s) - 1)" % (a, b, a, b)
        if x < 0.92:
            return "!(%s) + (~(%s)) %% 5" % (a, b)
        return "%s * (-%s) + (%s < %s)" % (a, r.choice(["2", "3"]), a, b)

    def val(self, g):
        r = self.r
        if r.random() < 0.25:
            self.features.add("expression")
            return "(" + self.expr(g, 2) + ")"
        if self.hostvar and r.random() < 0.3:
            self.features.add("host-decl")
            return "(in0[%s] + m)" % g
        x = r.random()
        if x < 0.3:
            return "in0[%s]" % g
        if x < 0.5:
            return "(in0[%s] + 2 * in1[%s])" % (g, g)
        if x < 0.65:
            self.features.add("helper")
            return "hf(in1[%s])" % g
        if x < 0.8:
            return "(in0[%s] * in1[%s] - %d)" % (g, g, r.randint(0, 5))
        return "(%s %% 5 + in1[%s])" % (g, g)

    def stmts(self, phases, ph, g, use_shared, use_excl, use_excl_ptr, iexpr, pad):
        r = self.r
        I = self.I
        out = ""
        last = ph == phases - 1
        if ph == 0:
            if use_excl:
                out += pad + "e = %s;\n" % self.val(g)
            if use_shared:
                out += pad + "s[%s] = %s;\n" % (iexpr, self.val(g))
            if use_excl_ptr:
                out += pad + "p = out1 + (8 + in0[%s] %% 3);\n" % g
            if getattr(self, "use_excl_arr", False):
                out += pad + "ea[0] = %s;\n" % self.val(g) + pad + "ea[1] = %s %% 7;\n" % g
        terms = [self.val(g)]
        if getattr(self, "use_excl_arr", False) and (ph > 0 or r.random() < 0.5):
            terms.append("ea[0] - ea[1]")
        if r.random() < 0.2:
            self.features.add("loop-in-inner")
            skip = ""
            if r.random() < 0.4:
                self.features.add("continue-in-loop")
                skip = pad + "  if (t == 1) {\n" + pad + "    continue;\n" + pad + "  }\n"
            out += pad + "int acc = 0;\n" + pad + "for (int t = 0; t < 3; ++t) {\n" + skip + pad + "  acc += in1[(%s + t) %% 64];\n" % g + pad + "}\n"
            terms.append("acc")
        # a phase that rewrites its own tile element may read only that element (other elements are
        # being written by sibling iterations of the same phase)
        rewrite = ph > 0 and use_shared and not last and r.random() < 0.3
        if ph > 0 and use_shared:
            terms.append("s[%s]" % (iexpr if rewrite else r.choice(["%d - %s" % (I - 1, iexpr), "(%s + 1) %% %d" % (iexpr, I), iexpr])))
        if ph > 0 and use_excl:
            terms.append("e")
        if last or r.random() < 0.4:
            rhs = " + ".join(terms)
            if r.random() < 0.25:
                self.features.add("branch")
                out += pad + "if (in0[%s] > 4) {\n%s  out0[%s] = %s;\n%s} else {\n%s  out0[%s] = -(%s);\n%s}\n" % (g, pad, g, rhs, pad, pad, g, rhs, pad)
            else:
                out += pad + "out0[%s] = %s;\n" % (g, rhs)
        # commutative updates shared between outer iterations
        for _ in range(r.choice([0, 1, 1, 2])):
            x = r.random()
            self.features.add("atomic")
            if x < 0.3:
                out += pad + "@atomic out1[in0[%s] %% %d] += %s;\n" % (g, r.choice([1, 2, 3]), r.choice(["1", "in1[%s]" % g, "2"]))
            elif x < 0.36:
                out += pad + "@atomic out1[4] -= 1;\n"
            elif x < 0.42:
                # right-hand sides that are expressions, not atoms (the translators paste them into a call)
                self.features.add("atomic-compound-rhs")
                out += pad + r.choice(["@atomic out1[13] -= in0[%s] - in1[%s];\n" % (g, g),
                                       "@atomic out1[14] -= in0[%s] > 3 ? 1 : 2;\n" % g,
                                       "@atomic out1[13] += in0[%s] - in1[%s] * 2;\n" % (g, g)])
            elif x < 0.52:
                out += pad + "@atomic ++out1[5];\n"
            elif x < 0.67:
                self.features.add("atomic-float")
                out += pad + "@atomic fout[in1[%s] %% 2] += %s;\n" % (g, r.choice(["1.0f", "2.0f", "(float) in0[%s]" % g]))
            elif x < 0.76:
                self.features.add("atomic-block")
                out += pad + "@atomic {\n%s  out1[6] = out1[6] + in0[%s];\n%s  out1[7] = out1[7] + 1;\n%s}\n" % (pad, g, pad, pad)
            elif x < 0.775:
                # the basic form (+=) on a location that the general forms update too
                self.features.add("atomic-basic-on-general-location")
                out += pad + "@atomic out1[7] += 2;\n"
            elif x < 0.82:
                # a general (non += / ++) update in a single statement, on the locations the block form updates too
                self.features.add("atomic-assign")
                out += pad + "@atomic out1[%d] = out1[%d] + %s;\n" % ((6, 6, "in0[%s]" % g) if r.random() < 0.5 else (7, 7, "2"))
            elif use_excl_ptr:
                self.features.add("atomic-through-exclusive-pointer")
                out += pad + "@atomic *p += 1;\n"
            else:
                out += pad + "@atomic *(out1 + 12) += in1[%s];\n" % g
        if ph > 0 and use_excl and not last and r.random() < 0.5:
            out += pad + "e = e + 1;\n"
        if rewrite:
            # rewrite the tile for the next phase (own element only; the barrier orders it)
            out += pad + "s[%s] = s[%s] + 1;\n" % (iexpr, iexpr)
        return out


def reference(src):
    """Sequential reading of a generated kernel as plain C++ (`extern "C" void kref(...)`): @outer/@inner
    loops are ordinary loops, a @shared array is a fresh array per outer iteration, an @exclusive variable
    is an array indexed by the linearised inner index, @barrier and @atomic disappear.  Written from the
    generator's own templates - it does not use any OCCA code."""
    import re
    out = []
    iexpr = None
    down_from = None
    for line in src.split("\n"):
        l = line
        if l.strip().startswith("@max_inner_dims("):
            continue
        l = l.replace("@kernel void k(", 'extern "C" void kref(')
        l = l.replace("@restrict ", "").replace(" @dim(8, 8)", "").replace(" @simd_length(4)", "")
        l = l.replace("out0(g % 8, g / 8)", "out0[g % 8 + 8 * (g / 8)]").replace("out0(g > 7 ? g % 8 : g, g >> 3)", "out0[(g > 7 ? g % 8 : g) + 8 * (g >> 3)]")
        l = re.sub(r";\s*@tile\([^@]*, @outer, @inner\)\)", ")", l)
        l = re.sub(r";\s*@outer(\(\d\))?\)", ")", l)
        if re.search(r";\s*@inner(\(\d\))?\)", l):
            l = re.sub(r";\s*@inner(\(\d\))?\)", ")", l)
        # an @exclusive value belongs to the work item, i.e. to the *position* in the inner loop's iteration
        # order, not to the iterator value: a loop that counts down visits position 0 with its largest value
        mdown = re.match(r"\s*for \(int i = (\d+); i >= 0; --i\)", l)
        if mdown:
            down_from = int(mdown.group(1))
        elif re.match(r"\s*for \(int i = 0; i < \d+; \+\+i\)", l):
            down_from = None
        elif re.match(r"\s*for \(int i = 1; i < \d+; \+\+i\)", l):
            down_from = "from1"
        mgt = re.match(r"\s*for \(int i = (\d+); i > 0; i--\)", l)
        if mgt:
            down_from = int(mgt.group(1))       # position of iterator value i is I - i
        m = re.match(r"\s*const int g = (.*);", l)
        if m:
            if "(ia * 2 + ib)" in l:
                iexpr = "(ia * 2 + ib)"
            else:
                iexpr = "i" if down_from is None else ("(i - 1)" if down_from == "from1" else "(%d - i)" % down_from)
        l = re.sub(r"@shared int s\[(\d+)\];", r"int s[\1];", l)
        if "@exclusive int e;" in l:
            l = l.replace("@exclusive int e;", "int e[64];")
        elif "@exclusive int *p;" in l:
            l = l.replace("@exclusive int *p;", "int *p[64];")
        elif "@exclusive int ea[2];" in l:
            l = l.replace("@exclusive int ea[2];", "int ea[64][2];")
        else:
            if iexpr is not None:
                l = re.sub(r"(?<![A-Za-z0-9_])e(?![A-Za-z0-9_\[])", "e[%s]" % iexpr, l)
                l = re.sub(r"(?<![A-Za-z0-9_])p(?![A-Za-z0-9_\[])", "p[%s]" % iexpr, l)
                l = re.sub(r"(?<![A-Za-z0-9_])ea\[", "ea[%s][" % iexpr, l)
        l = l.replace("@barrier();", ";")
        l = l.replace("@atomic ", "")
        out.append(l)
    return "\n".join(out)
