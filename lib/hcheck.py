"""handlesim driver: generator (state-aware, swarm-style), executor client (hsim fork server),
observation checker with the C01-C05 oracles, shrinking, reporting."""
import hashlib
import json
import os
import subprocess
import sys
import time

from . import build, common
from . import hmodel as hm
from .hmodel import DT

ENG = os.path.join(build.VERIF, "engines", "handlesim")
BIN = os.path.join(build.WORK, "bin")

LIFE_OPS = ("new", "del", "copy", "assign", "swap", "free", "norefs", "mkdev", "mkstream", "setstream", "getstream", "build")
MEM_OPS = ("malloc", "wrap", "slice", "plus", "cast", "clone", "copyMM", "copyToMM", "copyHM", "copyMH", "fill", "hostwrite", "run")
POOL_OPS = ("mkpool", "reserve", "presize", "pshrink", "palign")


def ensure_engine():
    build.ensure("asan")
    os.makedirs(BIN, exist_ok=True)
    with build.Lock("hsim-tool"):
        build.cxx(os.path.join(BIN, "hsim"), [os.path.join(ENG, "hsim.cpp")], variant="asan",
                  flags=["-fsanitize=address", "-fno-omit-frame-pointer"])
    # warm the kernel cache used by the harness (real compiler, once)
    cache = os.path.join(build.WORK, "hsim-cache")
    os.makedirs(cache, exist_ok=True)
    return cache


# ------------------------------------------------------------------ executor client

class Server:
    def __init__(self, tag):
        self.errfile = os.path.join(build.WORK, "hsim-err-%s.txt" % tag)
        self.proc = None

    def start(self):
        env = dict(os.environ)
        env.update({"OCCA_CACHE_DIR": os.path.join(build.WORK, "hsim-cache"), "OMP_NUM_THREADS": "1",
                    "ASAN_OPTIONS": "exitcode=77:detect_leaks=0:abort_on_error=0", "LANG": "C"})
        for k in list(env):
            if k.startswith("OCCA_") and k != "OCCA_CACHE_DIR":
                del env[k]
        self.err = open(self.errfile, "w")
        self.proc = subprocess.Popen(["setarch", "-R", os.path.join(BIN, "hsim")], stdin=subprocess.PIPE,
                                     stdout=subprocess.PIPE, stderr=self.err, env=env, text=True, bufsize=1 << 16)
        line = self.proc.stdout.readline()
        if line.strip() != "READY":
            raise RuntimeError("hsim did not start: %r %s" % (line, open(self.errfile).read()[-2000:]))

    def run(self, ops):
        """Execute one history.  Returns (blocks, status, signal, stderr_tail): blocks is a list of
        (result_line, observation_lines)."""
        if self.proc is None or self.proc.poll() is not None:
            self.start()
        self.err.seek(0)
        self.err.truncate()
        p = self.proc
        p.stdin.write("RUN %d\n" % len(ops))
        for o in ops:
            p.stdin.write(" ".join(str(x) for x in o) + "\n")
        p.stdin.flush()
        blocks = []
        cur = None
        status = sig = None
        while True:
            line = p.stdout.readline()
            if not line:
                raise RuntimeError("hsim server died: " + open(self.errfile).read()[-2000:])
            line = line.rstrip("\n")
            if line.startswith("STATUS "):
                t = line.split()
                status, sig = int(t[1]), int(t[2])
                break
            if line.startswith("R "):
                cur = [line[2:], []]
                continue
            if line == ".":
                if cur is not None:
                    blocks.append((cur[0], cur[1]))
                cur = None
                continue
            if cur is not None:
                cur[1].append(line)
        tail = ""
        if status != 0 or sig:
            try:
                with open(self.errfile) as f:
                    tail = f.read()[-4000:]
            except OSError:
                pass
        return blocks, status, sig, tail

    def stop(self):
        if self.proc and self.proc.poll() is None:
            try:
                self.proc.stdin.write("QUIT\n")
                self.proc.stdin.flush()
                self.proc.wait(timeout=5)
            except Exception:
                self.proc.kill()


_server = None


def server():
    global _server
    if _server is None:
        _server = Server("w%s-%d" % (common.worker_id(), os.getpid()))
    return _server


# ------------------------------------------------------------------ generator

FAMILIES = ["life", "swap", "free", "norefs", "devfree", "multidev", "copy", "slice", "clone", "hostalias", "invalid",
            "uninit", "pool", "poolresize", "poolalign", "kernel", "stream"]

PROFILE = {
    # per property: families that are always on, and the relative weights
    "C01": dict(always=["life", "free"], w=dict(life=5, swap=2, free=3, norefs=1, devfree=2, multidev=1, copy=1, slice=2, clone=1,
                                                 hostalias=1, invalid=0, uninit=0, pool=2, poolresize=1, poolalign=0, kernel=2, stream=2)),
    "C02": dict(always=["copy", "slice"], w=dict(life=2, swap=0, free=1, norefs=0, devfree=0, multidev=1, copy=6, slice=4, clone=2,
                                                  hostalias=3, invalid=3, uninit=1, pool=0, poolresize=0, poolalign=0, kernel=1, stream=0)),
    "C03": dict(always=["pool"], w=dict(life=2, swap=0, free=1, norefs=0, devfree=0, multidev=0, copy=2, slice=2, clone=0,
                                         hostalias=0, invalid=0, uninit=0, pool=7, poolresize=3, poolalign=2, kernel=0, stream=0)),
    "C04": dict(always=["pool"], w=dict(life=2, swap=0, free=1, norefs=0, devfree=0, multidev=0, copy=0, slice=3, clone=0,
                                         hostalias=0, invalid=1, uninit=0, pool=7, poolresize=3, poolalign=3, kernel=0, stream=0)),
    "C05": dict(always=["life"], w=dict(life=3, swap=0, free=2, norefs=0, devfree=1, multidev=1, copy=0, slice=1, clone=3,
                                         hostalias=3, invalid=0, uninit=0, pool=4, poolresize=3, poolalign=2, kernel=0, stream=0)),
}


def generate(seed, prop):
    r = common.rng(seed, "hgen")
    prof = PROFILE[prop]
    enabled = set(prof["always"])
    for f in FAMILIES:
        if prof["w"].get(f, 0) > 0 and r.random() < 0.55:
            enabled.add(f)
    weights = [(f, prof["w"][f]) for f in FAMILIES if f in enabled and prof["w"].get(f, 0) > 0]
    m = hm.Model()
    ops = []

    def emit(op):
        op = [str(x) for x in op]
        e = hm.apply(m, op)
        ops.append(op)
        return e

    for k, n in hm.KINDS.items():
        for i in range(n):
            emit(["new", k, i])
    emit(["mkdev", 0, r.choice(["Serial", "Serial", "OpenMP"])])
    nops = r.randint(8, 45)
    fillv = [r.randrange(256)]

    def live_mem_slots(pred=None):
        return [i for i in range(hm.NM) if m.present["M"][i] and m.slot["M"][i] is not None and (pred is None or pred(m.slot["M"][i]))]

    def any_slot(k):
        s = [i for i in range(hm.KINDS[k]) if m.present[k][i]]
        return r.choice(s) if s else None

    def live_slot(k):
        s = [i for i in range(hm.KINDS[k]) if m.present[k][i] and m.slot[k][i] is not None]
        return r.choice(s) if s else None

    def dev_slot():
        s = live_slot("D")
        return s if s is not None else any_slot("D")

    def small(hi):
        return r.choice([0, 1, 1, 2, 3, hi, max(0, hi - 1), r.randint(0, max(0, hi))])

    for _ in range(nops):
        fam = _weighted(r, weights)
        before = len(ops)
        if fam == "life":
            k = r.choice("DMMMMPKS")
            x = r.random()
            i = r.randrange(hm.KINDS[k])
            j = r.randrange(hm.KINDS[k])
            if x < 0.25:
                if m.present[k][i]:
                    emit(["del", k, i])
                else:
                    emit(["new", k, i])
            elif x < 0.55:
                if not m.present[k][i] and m.present[k][j]:
                    emit(["copy", k, i, j])
                elif m.present[k][i] and m.present[k][j]:
                    emit(["assign", k, i, j])
            elif x < 0.8:
                s = live_slot(k)
                t = any_slot(k)
                if s is not None and t is not None:
                    emit(["assign", k, t, s])
            else:
                d = dev_slot()
                t = any_slot("M")
                if d is not None and t is not None:
                    n = r.randint(1, 16)
                    if r.random() < 0.04:
                        emit(["malloc", d, t, n, "unreg", -1, 0, 0])     # refused: nothing may be allocated or accounted
                    else:
                        emit(["malloc", d, t, n, r.choice(["int", "float", "byte", "double"]), -1, 0, 0])
                        fillv[0] += 1
                        emit(["fill", t, fillv[0] % 256])
        elif fam == "swap":
            k = r.choice("MMP")
            i, j = any_slot(k), any_slot(k)
            if i is not None and j is not None:
                emit(["swap", k, i, j])
        elif fam == "free":
            k = r.choice("MMMPKS")
            i = live_slot(k) if r.random() < 0.85 else any_slot(k)
            if i is not None:
                emit(["free", k, i])
        elif fam == "norefs":
            k = r.choice("MMPKSD")
            i = live_slot(k)
            if i is not None:
                emit(["norefs", k, i])
        elif fam == "devfree":
            i = live_slot("D")
            if i is not None and r.random() < 0.5:
                emit(["free", "D", i])
            else:
                t = any_slot("D")
                if t is not None:
                    emit(["mkdev", t, r.choice(["Serial", "OpenMP"])])
        elif fam == "multidev":
            t = any_slot("D")
            if t is not None and m.slot["D"][t] is None:
                emit(["mkdev", t, r.choice(["Serial", "OpenMP"]), 1 if ("hostalias" in enabled and r.random() < 0.4) else 0])
        elif fam in ("copy", "invalid", "uninit"):
            _gen_copy(r, m, emit, fam, live_mem_slots, any_slot, fillv)
        elif fam == "slice":
            s = live_mem_slots()
            t = any_slot("M")
            if s and t is not None:
                si = r.choice(s)
                v = m.slot["M"][si]
                ln = v.size // DT[v.dtype]
                x = r.random()
                if x < 0.6:
                    off = small(ln)
                    cnt = -1 if r.random() < 0.4 else small(max(0, ln - off))
                    if v.pool is not None and (cnt == 0 or (cnt == -1 and off == ln)):
                        cnt, off = 1, 0
                    if v.size == 0:
                        continue
                    if "invalid" in enabled and r.random() < 0.08:
                        # astronomically large requests: count * sizeof(dtype) does not fit in 64 bits
                        if r.random() < 0.5:
                            cnt = r.choice(HUGE)
                        else:
                            off = r.choice(HUGE)
                    emit(["slice", t, si, off, cnt])
                elif x < 0.75:
                    off = small(ln)
                    if v.pool is not None and off == ln:
                        off = 0
                    emit(["plus", t, si, off])
                else:
                    emit(["cast", t, si, r.choice(hm.DTNAMES) if r.random() > 0.04 else "unreg"])
        elif fam == "clone":
            s = live_mem_slots()
            t = any_slot("M")
            if s and t is not None:
                emit(["clone", t, r.choice(s)])
        elif fam == "hostalias":
            d = dev_slot()
            t = any_slot("M")
            if d is not None and t is not None:
                dt = r.choice(["int", "byte", "float", "short", "double"]) if r.random() > 0.05 else "unreg"
                n = r.randint(1, hm.HBYTES // DT[dt] // 2)
                h = r.randrange(hm.NH)
                x = r.random()
                if x < 0.4:
                    emit(["wrap", d, t, h, n, dt, 1 if r.random() < 0.3 else 0])
                elif x < 0.8:
                    emit(["malloc", d, t, n, dt, h, 1 if r.random() < 0.7 else 0, 0])
                else:
                    emit(["hostwrite", h, r.randint(0, 200), r.randint(1, 40), r.randrange(256)])
        elif fam == "pool":
            _gen_pool(r, m, emit, live_slot, any_slot, dev_slot, fillv)
        elif fam == "poolresize":
            p = live_slot("P")
            if p is not None:
                if r.random() < 0.4:
                    emit(["pshrink", p])
                else:
                    emit(["presize", p, r.choice([0, 64, 128, 200, 256, 300, 512, 640, 1024, 2048, r.randint(0, 3000)])])
        elif fam == "poolalign":
            p = live_slot("P")
            if p is not None:
                emit(["palign", p, r.choice([1, 2, 3, 8, 16, 48, 64, 128, 256])])
        elif fam == "kernel":
            d = dev_slot()
            k = any_slot("K")
            x = r.random()
            if x < 0.5 and d is not None and k is not None:
                emit(["build", d, k, r.randrange(2)])
            else:
                kk = live_slot("K")
                ints = live_mem_slots(lambda v: v.dtype == "int" and v.size >= 4)
                if kk is not None and len(ints) >= 1:
                    a, b = r.choice(ints), r.choice(ints)
                    va, vb = m.slot["M"][a], m.slot["M"][b]
                    n = r.randint(0, min(va.size, vb.size) // 4)
                    kd = m.slot["K"][kk].dev
                    same = va is vb
                    disjoint = (va.storage is not vb.storage) or not hm.overlap(va.base, va.base + 4 * n, vb.base, vb.base + 4 * n)
                    devs_ok = (_dev_of_view(va).mode == kd.mode and _dev_of_view(vb).mode == kd.mode)
                    if (same or disjoint) and devs_ok:
                        emit(["run", kk, a, b, n])
        elif fam == "stream":
            d = dev_slot()
            s = any_slot("S")
            if d is not None and s is not None:
                emit([r.choice(["mkstream", "mkstream", "setstream", "getstream"]), d, s])
        if len(ops) == before:
            continue
    return ops, sorted(enabled)


def _dev_of_view(v):
    return v.pool.dev if v.pool is not None else v.buf.dev


def _weighted(r, weights):
    tot = sum(w for _, w in weights)
    x = r.random() * tot
    for f, w in weights:
        x -= w
        if x <= 0:
            return f
    return weights[-1][0]


def _gen_copy(r, m, emit, fam, live_mem_slots, any_slot, fillv):
    live = live_mem_slots()
    if fam == "uninit":
        # call forms involving an uninitialized handle
        nulls = [i for i in range(hm.NM) if m.present["M"][i] and m.slot["M"][i] is None]
        if not nulls:
            return
        n = r.choice(nulls)
        x = r.random()
        t = any_slot("M")
        if x < 0.2:
            emit(["copyHM", n, 0, 1, 0, 0])
        elif x < 0.35:
            emit(["copyMH", n, 0, 1, 0, 0])
        elif x < 0.5 and t is not None:
            emit(["slice", t, n, 0, -1])
        elif x < 0.6 and t is not None:
            emit(["clone", t, n])
        elif x < 0.7 and t is not None:
            emit(["cast", t, n, "int"])
        elif live:
            o = r.choice(live)
            emit([r.choice(["copyMM", "copyToMM"])] + (r.choice([[n, o], [o, n], [n, n]])) + [r.choice([-1, 1]), 0, 0])
        return
    if not live:
        return
    a = r.choice(live)
    va = m.slot["M"][a]
    la = va.size // DT[va.dtype]
    x = r.random()
    bad = fam == "invalid"
    if x < 0.45:
        # host <-> device
        h = r.randrange(hm.NH)
        if bad:
            if va.storage is m.H[h]:
                return          # a request that happens to be valid must not be an overlapping memcpy
            cnt = r.choice([-2, -5, la + 1, la + 2, 1, r.choice(HUGE)])
            off = r.choice([-1, -2, la, la + 1, 0, r.choice(HUGE)]) if cnt == 1 else r.choice([0, 0, 1])
            emit([r.choice(["copyHM", "copyMH"]), a, h, cnt, off, 0])
            return
        cnt = r.choice([-1, -1, r.randint(0, la)])
        off = 0 if cnt == -1 else r.randint(0, la - cnt)
        nbytes = DT[va.dtype] * (la if cnt == -1 else cnt)
        if nbytes > hm.HBYTES:
            return
        hoff = r.randint(0, hm.HBYTES - nbytes)
        name = r.choice(["copyHM", "copyMH"])
        # no overlapping memcpy when the view aliases the same host array
        if va.storage is m.H[h] and hm.overlap(va.base + DT[va.dtype] * off, va.base + DT[va.dtype] * off + nbytes, hoff, hoff + nbytes):
            return
        emit([name, a, h, cnt, off, hoff])
        return
    b = r.choice(live)
    vb = m.slot["M"][b]
    name = r.choice(["copyMM", "copyToMM"])
    dst, src, caller = (va, vb, va) if name == "copyMM" else (vb, va, va)
    csz, dsz, ssz = DT[caller.dtype], DT[dst.dtype], DT[src.dtype]
    lc = caller.size // csz
    if bad:
        if dst.storage is src.storage:
            return              # a request that happens to be valid must not be an overlapping memcpy
        cnt = r.choice([-2, lc + 1, (max(dst.size, src.size) // csz) + 1, 1, 1, r.choice(HUGE)])
        doff = r.choice([0, -1, dst.size // dsz, dst.size // dsz + 1, r.choice(HUGE)]) if cnt < 2 ** 40 else 0
        soff = r.choice([0, 0, -1, src.size // ssz + 1]) if cnt < 2 ** 40 else 0
        emit([name, a, b, cnt, doff, soff])
        return
    cnt = r.choice([-1, r.randint(0, lc), r.randint(0, lc)])
    nbytes = csz * (lc if cnt == -1 else cnt)
    if nbytes > dst.size or nbytes > src.size:
        if cnt == -1:
            return
        cnt = min(dst.size, src.size) // csz
        nbytes = csz * cnt
    doff = r.randint(0, (dst.size - nbytes) // dsz)
    soff = r.randint(0, (src.size - nbytes) // ssz)
    d0, s0 = dst.base + dsz * doff, src.base + ssz * soff
    if dst.storage is src.storage and nbytes and hm.overlap(d0, d0 + nbytes, s0, s0 + nbytes):
        return
    emit([name, a, b, cnt, doff, soff])


def _gen_pool(r, m, emit, live_slot, any_slot, dev_slot, fillv):
    p = live_slot("P")
    x = r.random()
    if p is None or x < 0.08:
        d, t = dev_slot(), any_slot("P")
        if d is not None and t is not None:
            emit(["mkpool", d, t])
        return
    pool = m.slot["P"][p]
    t = any_slot("M")
    if t is None:
        return
    if x < 0.6:
        dt = r.choice(["byte", "byte", "int", "float", "double", "short"])
        n = r.choice([1, 3, 7, 16, 32, 40, 64, 100, 128, 130, 200, 256, 300]) if dt == "byte" else r.randint(1, 48)
        if r.random() < 0.04:
            emit(["reserve", p, t, n, "unreg"])      # refused: no reservation may stay behind
            return
        emit(["reserve", p, t, n, dt])
        fillv[0] += 1
        emit(["fill", t, fillv[0] % 256])
    elif x < 0.85:
        # release a reservation (scope exit or free of the reservation handle)
        res = [i for i in range(hm.NM) if m.present["M"][i] and m.slot["M"][i] is not None and m.slot["M"][i].pool is pool]
        if res:
            i = r.choice(res)
            if r.random() < 0.5:
                emit(["free", "M", i])
            else:
                emit(["del", "M", i])
                emit(["new", "M", i])
    else:
        res = [i for i in range(hm.NM) if m.present["M"][i] and m.slot["M"][i] is not None and m.slot["M"][i].pool is pool]
        if res:
            i = r.choice(res)
            fillv[0] += 1
            emit(["fill", i, fillv[0] % 256])


# ------------------------------------------------------------------ checking one history

# counts and offsets whose product with a dtype size of 2, 4, 8 or 16 wraps around 64 bits (to 0, to a small or to a negative number)
HUGE = [2 ** 62, 2 ** 63 - 1, 2 ** 61, 2 ** 60 + 1, 2 ** 63 // 3, 2 ** 62 + 2, 2 ** 61 + 3]


def prop_of_op(name):
    if name in POOL_OPS:
        return "C03"
    if name in MEM_OPS:
        return "C02"
    return "C01"


def _undefined_result(m, known_hits, stats, full, status, sig):
    r = {"violations": [], "known_hits": dict(known_hits), "hash": "undefined", "stats": stats, "nops": len(full),
         "state_hash": "undefined", "status": status, "sig": sig, "undefined": m.undefined}
    if known_hits:
        # the history left the generator's contract only because a tolerated, recorded deviation (a call that
        # returns silently where the model expected an exception) changed a handle: the run is cut short there
        r["truncated_after_tolerated"] = r.pop("undefined")
    return r


def check_history(ops, want_prop=None, tolerate=()):
    """Run `ops` on the implementation and on the model; return a result dict with the first
    violation of each property (class, text, op index)."""
    srv = server()
    m = hm.Model()
    full = [list(map(str, o)) for o in ops]
    blocks, status, sig, tail = srv.run(full)
    viol = []
    known_hits = {}
    h = hashlib.sha256()
    model_states = 0
    stats = {"ops": 0, "exceptions_expected": 0, "max_handles_on_object": 0, "objects_created": 0, "pool_growth_in_reserve": 0,
             "pool_fragmented_request": 0, "views_live_max": 0, "freed_with_3plus_handles": 0}
    reserved_expected = {}      # pool id -> expected reserved() from the previous observation
    alloc_prev = {}             # dev id -> model-side memoryAllocated expectation before the op
    poolsize_prev = {}
    for idx, op in enumerate(full):
        if idx >= len(blocks):
            break
        res, obs = blocks[idx]
        h.update((" ".join(op) + "|" + res.split(" ", 1)[0] + "\n").encode())
        # ---- what the spec says
        # snapshot for the bounded-transient rule of maxMemoryAllocated
        alloc_before = {d.id: _alloc_expected(m, d, poolsize_prev) for d in m.live("dev")}
        pre_objs = len(m.objs)
        if op[0] == "free":
            o = m.slot[op[1]][int(op[2])] if m.present[op[1]][int(op[2])] else None
            if o is not None and len(o.handles) >= 3:
                stats["freed_with_3plus_handles"] += 1
        exp = hm.apply(m, op)
        name = op[0]
        if m.undefined:
            # (only reachable through shrinking: the generator never emits such operations) the history
            # has undefined behaviour by the API's own rules, so nothing can be concluded from it
            return _undefined_result(m, known_hits, stats, full, status, sig)
        # resize below reserved() must raise and change nothing (C04)
        if name == "presize" and exp.outcome == "ok":
            pool = m.slot["P"][int(op[1])]
            rexp = reserved_expected.get(pool.id)
            if rexp is not None and int(op[2]) < rexp:
                exp = hm.Expect("exc", "resize below reserved")
        if name == "pshrink" and exp.outcome == "ok":
            pass
        stats["ops"] += 1
        stats["objects_created"] += len(m.objs) - pre_objs
        if exp.outcome == "exc":
            stats["exceptions_expected"] += 1
        actual = res.split(" ", 1)[0]
        p_op = prop_of_op(name)
        if exp.outcome == "either":
            if actual == "ok" and exp.on_ok:
                exp.on_ok()
            exp = hm.Expect("ok" if actual == "ok" else "exc", exp.note)
        if exp.outcome == "skip" or actual == "skip":
            if exp.outcome != actual:
                viol.append(("ENGINE", "model-harness-disagree", "op %d %s: model %s, harness %s" % (idx, " ".join(op), exp.outcome, actual), idx))
                break
        elif exp.outcome == "ok" and actual == "exc":
            pp = "C04" if name in ("presize", "pshrink", "palign") else p_op
            viol.append((pp, "unexpected-exception", "op %d `%s` raised: %s" % (idx, " ".join(op), res[4:120]), idx))
            break
        elif exp.outcome == "exc" and actual == "ok" and ("%s|missing-exception|%s" % (p_op, exp.note.replace(" ", "_"))) in tolerate:
            # a recorded finding: note it, follow what the implementation did (a silent no-op) and go on
            known_hits[exp.note] = known_hits.get(exp.note, 0) + 1
            if exp.on_ok:
                exp.on_ok()
        elif exp.outcome == "exc" and actual == "ok":
            pp = "C04" if exp.note == "resize below reserved" else p_op
            viol.append((pp, "missing-exception", "op %d `%s` (%s) returned normally; the statement requires occa::exception" %
                         (idx, " ".join(op), exp.note), idx, exp.note))
            break
        # ---- observation vs model
        v2 = _compare(m, obs, idx, op, exp, alloc_before, poolsize_prev, reserved_expected, stats)
        if v2:
            viol.extend(v2)
            break
        model_states += 1
    crashed = (status != 0 or sig)
    nexec = len(blocks)
    if crashed and not viol and nexec < len(full):
        # the operation the child died in has not been judged by the model yet: if it has undefined behaviour by
        # the API's own rules (possible after shrinking, or after a tolerated recorded deviation changed a handle
        # the generator relied on), nothing can be concluded from the crash
        hm.apply(m, full[nexec])
        if m.undefined:
            return _undefined_result(m, known_hits, stats, full, status, sig)
    if crashed and not viol:
        # the op after the last complete block is where the child died
        idx = min(nexec, len(full) - 1)
        op = full[idx] if nexec < len(full) else ["<end-of-history>"]
        what = _asan_summary(tail) if status == 77 else ("signal %s" % sig if sig else "exit status %s" % status)
        cls = ("asan:" + what.split(": ", 1)[-1].split()[0]) if status == 77 else ("crash" if sig else "abnormal-exit")
        if sig in (24, 9) and status != 77:
            # SIGXCPU / SIGKILL from the CPU-time limit of the executor: the operation did not terminate
            what, cls = "did not terminate (10 s of CPU time used; a history takes milliseconds)", "hang"
        pp = prop_of_op(op[0]) if op[0] != "<end-of-history>" else "C01"
        viol.append((pp, cls, "op %d `%s`: %s" % (idx, " ".join(op), what), idx))
    elif not crashed and not viol and nexec >= len(full) + 2:
        # end-of-history residue: the harness dropped every handle, then every device
        v3 = _check_end(m, blocks[len(full):], len(full))
        viol.extend(v3)
    stats["views_live_max"] = max(stats["views_live_max"], len(m.live("view")))
    return {"violations": viol, "known_hits": known_hits, "hash": h.hexdigest()[:16], "stats": stats, "nops": len(full),
            "state_hash": hashlib.sha256(repr(sorted((o.kind, len(o.handles), o.pinned) for o in m.objs if o.alive)).encode()).hexdigest()[:12],
            "status": status, "sig": sig}


def _asan_summary(tail):
    for line in tail.splitlines():
        if "ERROR: AddressSanitizer" in line:
            t = line.split("ERROR: AddressSanitizer:", 1)[1].strip()
            return "AddressSanitizer: " + t.split(" on ")[0][:80]
    return "AddressSanitizer report"


def _alloc_expected(m, dev, poolsize):
    tot = dev.alloc
    for p in m.live("pool"):
        if p.dev is dev:
            tot += poolsize.get(p.id, p.lastsize)
    return tot


def _parse_obs(obs):
    o = {"D": {}, "M": {}, "P": {}, "K": {}, "S": {}, "H": {}, "C": None}
    for line in obs:
        t = line.split(" ")
        k = t[0]
        if k == "C":
            o["C"] = [int(x) for x in t[1:]]
        elif k == "H":
            o["H"][int(t[1])] = t[2]
        else:
            o[k][int(t[1])] = t[2:]
    return o


def _compare(m, obs, idx, op, exp, alloc_before, poolsize_prev, reserved_expected, stats, check_max=True):
    o = _parse_obs(obs)
    name = op[0]
    where = "after op %d `%s`" % (idx, " ".join(op))
    out = []
    # ---------- C01: handle state of every slot
    for k in "DMPKS":
        for i in range(m.kinds[k]):
            f = o[k].get(i)
            if f is None:
                continue
            present = f[0] == "1"
            if present != m.present[k][i]:
                return [("ENGINE", "presence", "%s: slot %s%d presence differs" % (where, k, i), idx)]
            if not present:
                continue
            init = f[1] == "1"
            want = m.slot[k][i] is not None
            if init != want:
                return [("C01", "handle-state", "%s: handle %s%d reports isInitialized()==%s, it should be %s" %
                         (where, k, i, init, want), idx)]
    hmax = max([len(x.handles) for x in m.objs if x.alive] or [0])
    stats["max_handles_on_object"] = max(stats["max_handles_on_object"], hmax)
    # ---------- C02: memory contents, sizes, dtypes, offsets
    poolviews = {}
    for i in range(m.kinds["M"]):
        f = o["M"].get(i)
        if not f or f[0] != "1":
            continue
        v = m.slot["M"][i]
        if v is None:
            if f[2] != "0" or f[3] != "0":
                return [("C02", "wrong-size", "%s: uninitialized handle M%d reports size %s/%s" % (where, i, f[2], f[3]), idx)]
            continue
        bytes_, length, dtn, off, hx = int(f[2]), int(f[3]), f[4], int(f[5]), f[6]
        pp = "C03" if v.pool is not None else "C02"
        if bytes_ != v.size or length != v.size // DT[v.dtype] or dtn != v.dtype:
            return [(pp, "wrong-size", "%s: M%d has byte_size %d length %d dtype %s, model says %d/%d/%s" %
                     (where, i, bytes_, length, dtn, v.size, v.size // DT[v.dtype], v.dtype), idx)]
        if len(f) > 7 and f[7] == "OVERRUN":
            return [(pp, "overrun", "%s: copyTo of M%d wrote past the requested bytes" % (where, i), idx)]
        if v.pool is None and off != v.base:
            return [("C02", "wrong-offset", "%s: M%d sits at byte offset %d of its buffer, model says %d" % (where, i, off, v.base), idx)]
        if v.pool is not None:
            poolviews.setdefault(v.pool.id, []).append((i, v, off))
        if hx != "-":
            got = bytes.fromhex(hx)
            n = (v.size // DT[v.dtype]) * DT[v.dtype]
            d, kn = m.view_bytes(v)
            for b in range(n):
                if kn[b] and got[b] != d[b]:
                    return [(pp, "wrong-bytes", "%s: M%d byte %d reads 0x%02x, the model says 0x%02x (view of %d bytes, dtype %s)" %
                             (where, i, b, got[b], d[b], v.size, v.dtype), idx)]
    for j in range(hm.NH):
        hx = o["H"].get(j)
        if hx is None:
            continue
        got = bytes.fromhex(hx)
        st = m.H[j]
        for b in range(hm.HBYTES):
            if st.known[b] and got[b] != st.data[b]:
                return [("C02", "wrong-bytes", "%s: host array H%d byte %d reads 0x%02x, the model says 0x%02x" %
                         (where, j, b, got[b], st.data[b]), idx)]
    # ---------- C03 / C04: pools
    for p in m.live("pool"):
        slots = [i for i in range(m.kinds["P"]) if m.present["P"][i] and m.slot["P"][i] is p]
        views = poolviews.get(p.id, [])
        if slots:
            f = o["P"][slots[0]]
            size, reserved, nres, align = int(f[2]), int(f[3]), int(f[4]), int(f[5])
            if p.id in poolsize_prev and size == poolsize_prev[p.id] and name == "reserve" and m.slot["P"].count(p):
                pass
            if name == "reserve" and exp.outcome == "ok" and p.id in poolsize_prev and size > poolsize_prev[p.id]:
                stats["pool_growth_in_reserve"] += 1
            poolsize_prev[p.id] = size
            p.lastsize = size
            if name == "palign" and exp.outcome == "ok" and m.slot["P"][int(op[1])] is p and align != int(op[2]):
                out.append(("C04", "alignment", "%s: alignment() is %d after setAlignment(%s)" % (where, align, op[2]), idx))
            # geometry
            for (i, v, off) in views:
                if off < 0 or off + v.size > size:
                    return [("C03", "out-of-pool", "%s: reservation M%d occupies [%d,%d) outside the pool of %d bytes" %
                             (where, i, off, off + v.size, size), idx)]
            for a in range(len(views)):
                for b in range(a + 1, len(views)):
                    ia, va, oa = views[a]
                    ib, vb, ob = views[b]
                    if va is vb:
                        continue
                    ra = va.root if va.root is not None else va
                    rb = vb.root if vb.root is not None else vb
                    aliasing = ra is rb and va.size and vb.size and hm.overlap(va.base, va.base + va.size, vb.base, vb.base + vb.size)
                    if aliasing:
                        # views that share bytes of one reservation must keep sharing exactly those bytes
                        if (oa - ob) != (va.base - vb.base):
                            return [("C03", "alias-broken", "%s: M%d and M%d share bytes of one reservation (%d bytes apart), the pool has them %d apart" %
                                     (where, ia, ib, va.base - vb.base, oa - ob), idx)]
                    elif va.size and vb.size and hm.overlap(oa, oa + va.size, ob, ob + vb.size):
                        return [("C03", "overlap", "%s: live reservations M%d [%d,%d) and M%d [%d,%d) overlap" %
                                 (where, ia, oa, oa + va.size, ib, ob, ob + vb.size), idx)]
            # accounting (only when every live view of the pool is observable through a slot)
            live_views = [v for v in p.views if v.alive]
            seen = set(id(v) for (_, v, _) in views)
            if nres != len(live_views):
                out.append(("C04", "num-reservations", "%s: numReservations() is %d with %d live reservations" % (where, nres, len(live_views)), idx))
            if all(id(v) in seen for v in live_views) and align > 0:
                ranges, ranges_lit = [], []
                for (_, v, off) in views:
                    rr = ((off // align) * align, -((-(off + v.size)) // align) * align)
                    ranges_lit.append(rr)
                    if v.size:
                        ranges.append(rr)
                want = _union(ranges)
                # a zero-length view (e.g. a cast to a dtype wider than the view, then slice(0)) is a live
                # reservation with an empty range: the statement does not say whether rounding an empty range
                # [o, o) out to the alignment gives nothing or the aligned block around o; both readings pass
                want_lit = _union([x for x in ranges_lit if x[1] > x[0]])
                if reserved == want_lit:
                    want = want_lit
                reserved_expected[p.id] = want
                if reserved != want:
                    out.append(("C04", "reserved", "%s: reserved() is %d, the live reservations %s rounded to alignment %d cover %d bytes" %
                                (where, reserved, sorted((off, off + v.size) for (_, v, off) in views), align, want), idx))
                if size < reserved:
                    out.append(("C04", "size-below-reserved", "%s: size() %d < reserved() %d" % (where, size, reserved), idx))
            else:
                reserved_expected.pop(p.id, None)
    if out:
        return out[:1]
    # ---------- C05: device accounting
    for d in m.live("dev"):
        slots = [i for i in range(m.kinds["D"]) if m.present["D"][i] and m.slot["D"][i] is d]
        if not slots:
            continue
        f = o["D"][slots[0]]
        alloc, mx = int(f[3]), int(f[4])
        want = _alloc_expected(m, d, poolsize_prev)
        if alloc != want:
            return [("C05", "allocated", "%s: memoryAllocated() is %d, live allocations amount to %d" % (where, alloc, want), idx)]
        before = alloc_before.get(d.id, 0)
        lo = max(m.maxseen.get(d.id, 0), alloc)
        hi = max(m.maxbound.get(d.id, 0), alloc)
        peak = None
        if exp.outcome == "ok" and name in ("malloc", "clone"):
            t = m.slot["M"][int(op[2] if name == "malloc" else op[1])]
            if t is not None and _dev_of_view(t) is d:
                peak = before + t.size
                lo, hi = max(lo, peak), max(hi, peak)
        elif name in ("reserve", "presize", "pshrink", "palign"):
            for p in m.live("pool"):
                if p.dev is d:
                    hi = max(hi, before + poolsize_prev.get(p.id, 0))
        m.maxseen[d.id] = lo
        m.maxbound[d.id] = hi
        if check_max and not (lo <= mx <= hi):
            return [("C05", "max-allocated", "%s: maxMemoryAllocated() is %d, expected %s" %
                     (where, mx, ("%d" % lo) if lo == hi else "between %d and %d" % (lo, hi)), idx)]
    # ---------- C01: live backend objects
    c = o["C"]
    if c:
        created, destroyed = c[:7], c[7:]
        live = [created[k] - destroyed[k] for k in range(7)]
        for k in range(7):
            if destroyed[k] > created[k]:
                return [("C01", "live-count", "%s: more destructions than constructions of backend kind %d" % (where, k), idx)]
        npools = len(m.live("pool"))
        want = {hm.K_DEVICE: len(m.live("dev")), hm.K_MEMORY: len(m.live("view")), hm.K_POOL: npools,
                hm.K_KERNEL: len(m.live("kern")), hm.K_STREAM: len(m.live("strm"))}
        names = {hm.K_DEVICE: "device", hm.K_MEMORY: "memory", hm.K_POOL: "memory pool", hm.K_KERNEL: "kernel", hm.K_STREAM: "stream"}
        for k, w in want.items():
            if live[k] != w:
                return [("C01", "live-count", "%s: %d live backend %s objects, the handle history implies %d" % (where, live[k], names[k], w), idx)]
        nb = len(m.live("buf")) + npools
        if not (nb <= live[hm.K_BUFFER] <= nb + npools):
            return [("C01", "live-count", "%s: %d live backend buffers, the handle history implies %d (+ at most %d pool backing buffers)" %
                     (where, live[hm.K_BUFFER], nb, npools), idx)]
    return []


def _union(ranges):
    tot = 0
    end = None
    for lo, hi in sorted(ranges):
        if end is None or lo > end:
            tot += hi - lo
            end = hi
        elif hi > end:
            tot += hi - end
            end = hi
    return tot


def _check_end(m, blocks, idx):
    """After the history the harness destroys all memory/kernel/stream/pool handles, then all
    device handles.  Only deliberately detached (dontUseRefs) objects may remain."""
    for k in ("M", "K", "S", "P"):
        for i in range(m.kinds[k]):
            if m.present[k][i]:
                hm.apply(m, ["del", k, str(i)])
    out = []
    o = _parse_obs(blocks[0][1])
    for d in m.live("dev"):
        slots = [i for i in range(m.kinds["D"]) if m.present["D"][i] and m.slot["D"][i] is d]
        if not slots:
            continue
        f = o["D"][slots[0]]
        if len(f) < 5:
            out.append(("C01", "handle-state", "at end of history: device handle D%d lost its device" % slots[0], idx))
            continue
        alloc = int(f[3])
        want = _alloc_expected(m, d, {})
        if alloc != want:
            out.append(("C05", "allocated-at-end", "after every memory and pool handle is gone memoryAllocated() is %d, expected %d" % (alloc, want), idx))
    for i in range(m.kinds["D"]):
        if m.present["D"][i]:
            hm.apply(m, ["del", "D", str(i)])
    o = _parse_obs(blocks[1][1])
    c = o["C"]
    live = [c[k] - c[7 + k] for k in range(7)]
    npools = len(m.live("pool"))
    want = {hm.K_DEVICE: len(m.live("dev")), hm.K_MEMORY: len(m.live("view")), hm.K_POOL: npools,
            hm.K_KERNEL: len(m.live("kern")), hm.K_STREAM: len(m.live("strm"))}
    for k, w in want.items():
        if live[k] != w and not out:
            out.append(("C01", "leak" if live[k] > w else "live-count",
                        "at end of history %d backend objects of kind %d are still alive, the history accounts for %d" % (live[k], k, w), idx))
    nb = len(m.live("buf")) + npools
    if not (nb <= live[hm.K_BUFFER] <= nb + npools) and not out:
        out.append(("C01", "leak", "at end of history %d backend buffers are still alive, the history accounts for %d" % (live[hm.K_BUFFER], nb), idx))
    return out[:1]


# ------------------------------------------------------------------ shrinking

def minimise(ops, prop, cls, max_tests=250, tolerate=()):
    """ddmin over the history, then argument simplification, keeping (property, class)."""
    def fails(sub):
        r = check_history(sub, tolerate=tolerate)
        return any(v[0] == prop and v[1] == cls for v in r["violations"])
    ops = [list(map(str, o)) for o in ops]
    if not fails(ops):
        return ops
    ops = common.ddmin(ops, fails, max_tests=max_tests)
    # second pass: try to drop single ops again (ddmin budget may have ended early)
    i = 0
    tests = 0
    while i < len(ops) and tests < 80:
        cand = ops[:i] + ops[i + 1:]
        tests += 1
        if cand and fails(cand):
            ops = cand
        else:
            i += 1
    return ops
