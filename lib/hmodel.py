"""Reference model, generator and oracles of the handlesim engine (C01-C05).

The model is written from the property statements and the public documentation: which
object each handle denotes, when an object dies, what every read returns, which calls must
raise, and the accounting values.  It never looks into libocca; pool *placement* (offsets,
pool size) is read from the implementation and checked against invariants instead of being
predicted."""

DT = {"byte": 1, "char": 1, "short": 2, "int": 4, "long": 8, "float": 4, "double": 8, "float2": 8, "int4": 16, "double2": 16}
DTNAMES = sorted(DT)
# a dtype object that was never registered: 4 bytes per entry; every request that would give a memory this dtype raises
DT["unreg"] = 4
ND, NM, NP, NK, NS, NH, HBYTES = 3, 10, 3, 3, 3, 4, 256
KINDS = {"D": ND, "M": NM, "P": NP, "K": NK, "S": NS}

K_DEVICE, K_BUFFER, K_MEMORY, K_POOL, K_KERNEL, K_STREAM, K_TAG = range(7)


class Obj:
    n = 0

    def __init__(self, kind):
        Obj.n += 1
        self.id = Obj.n
        self.kind = kind
        self.alive = True
        self.pinned = False
        self.handles = set()


class Storage:
    """A byte array with a per-byte 'known' mask (fresh device memory is indeterminate)."""

    def __init__(self, n, known=False):
        self.data = bytearray(n)
        self.known = bytearray([1 if known else 0]) * n if n else bytearray()


class Model:
    def __init__(self, kinds=None):
        kinds = kinds or KINDS
        self.kinds = dict(kinds)
        self.slot = {k: [None] * n for k, n in kinds.items()}      # target object or None
        self.present = {k: [False] * n for k, n in kinds.items()}
        self.H = [Storage(HBYTES, True) for _ in range(NH)]
        for j in range(NH):
            for i in range(HBYTES):
                self.H[j].data[i] = (0x40 + 16 * j + (i % 13)) & 0xff
        self.objs = []
        self.fillctr = 0
        self.orphans = 0           # pinned objects whose handles are all gone (deliberate leaks)
        self.maxbound = {}         # device id -> largest memoryAllocated the model allows so far
        self.maxseen = {}          # device id -> largest value observed after any op
        self.internal = {}         # internal handles, e.g. ("cur", device id) = the device's current stream
        self.undefined = None      # set when an operation has undefined behaviour by the API's own rules (overlapping memcpy)

    # ---------------------------------------------------------------- object graph
    def new(self, kind, **kw):
        o = Obj(kind)
        o.__dict__.update(kw)
        self.objs.append(o)
        return o

    def live(self, kind):
        return [o for o in self.objs if o.kind == kind and o.alive]

    def drop_handle(self, h):
        """The handle in slot h=(kind,i) (or an internal handle) lets go of its object."""
        k, i = h
        o = self.slot[k][i] if k in self.slot else self.internal.get(h)
        if o is None:
            return
        self._set(h, None)
        o.handles.discard(h)
        if not o.handles and not o.pinned and o.alive:
            self.destroy(o)
        elif not o.handles and o.pinned and o.alive:
            self.orphans += 1

    def _set(self, h, o):
        k, i = h
        if k in self.slot:
            self.slot[k][i] = o
        else:
            if o is None:
                self.internal.pop(h, None)
            else:
                self.internal[h] = o

    def attach(self, h, o):
        self.drop_handle(h)
        if o is not None and o.alive:
            self._set(h, o)
            o.handles.add(h)

    def null_handles(self, o):
        for h in list(o.handles):
            self._set(h, None)
        o.handles.clear()

    def destroy(self, o):
        if not o.alive:
            return
        o.alive = False
        self.null_handles(o)
        if o.kind == "view":
            owner = o.pool if o.pool is not None else o.buf
            if owner.alive and o in owner.views:
                owner.views.remove(o)
                if o.pool is None and not owner.views:
                    self.destroy(owner)
        elif o.kind == "buf":
            for v in list(o.views):
                o.views.remove(v)
                v.alive = False
                self.null_handles(v)
            if o.accounted and o.dev.alive:
                o.dev.alloc -= o.size
        elif o.kind == "pool":
            for v in list(o.views):
                o.views.remove(v)
                v.alive = False
                self.null_handles(v)
        elif o.kind == "dev":
            for c in [x for x in self.objs if x.alive and x.kind in ("kern", "buf", "pool", "strm") and x.dev is o]:
                self.destroy(c)
            # the device's own current-stream handle goes away with it (it may denote a stream of another device)
            self.drop_handle(("cur", o.id))
        # kern / strm: nothing else

    # ---------------------------------------------------------------- helpers
    def view_bytes(self, v):
        st = v.storage
        return st.data[v.base:v.base + v.size], st.known[v.base:v.base + v.size]

    def write(self, st, base, data, known):
        st.data[base:base + len(data)] = data
        st.known[base:base + len(known)] = known

    def dev_of(self, i):
        return self.slot["D"][i] if self.present["D"][i] else None


class Expect:
    """What the specification says the operation does."""

    def __init__(self, outcome, note="", on_ok=None):
        self.outcome = outcome      # 'ok' | 'exc' | 'skip' | 'either' (statement and docs fix neither outcome)
        self.note = note            # call form, used in finding signatures
        self.on_ok = on_ok          # for 'either': effect to apply when the call returned normally


def _abs(v):
    return (id(v.storage), v.base, v.base + v.size)


def overlap(a0, a1, b0, b1):
    return a0 < b1 and b0 < a1


def apply(m, op):
    """Advance the model by one operation.  Returns Expect.  `op` is a list of tokens."""
    name = op[0]
    P = m.present

    def I(k):
        return int(op[k])

    # ---------------- lifetime
    if name in ("new", "del", "copy", "assign", "swap", "free", "norefs"):
        k, i = op[1], I(2)
        j = I(3) if len(op) > 3 else 0
        if name == "new":
            if P[k][i]:
                return Expect("skip")
            P[k][i] = True
            m.slot[k][i] = None
            return Expect("ok")
        if name == "del":
            if not P[k][i]:
                return Expect("skip")
            m.drop_handle((k, i))
            P[k][i] = False
            return Expect("ok")
        if name == "copy":
            if P[k][i] or not P[k][j]:
                return Expect("skip")
            P[k][i] = True
            m.slot[k][i] = None
            m.attach((k, i), m.slot[k][j])
            return Expect("ok")
        if name == "assign":
            if not (P[k][i] and P[k][j]):
                return Expect("skip")
            if i != j and m.slot[k][i] is not m.slot[k][j]:
                m.attach((k, i), m.slot[k][j])
            return Expect("ok")
        if name == "swap":
            if k not in ("M", "P") or not (P[k][i] and P[k][j]):
                return Expect("skip")
            a, b = m.slot[k][i], m.slot[k][j]
            if a is not b:
                # the two handles exchange what they denote; no object gains or loses a handle count
                if a is not None:
                    a.handles.discard((k, i))
                if b is not None:
                    b.handles.discard((k, j))
                m.slot[k][i], m.slot[k][j] = b, a
                if b is not None:
                    b.handles.add((k, i))
                if a is not None:
                    a.handles.add((k, j))
            return Expect("ok", "swap")
        if name == "free":
            if not P[k][i]:
                return Expect("skip")
            o = m.slot[k][i]
            if o is not None:
                m.destroy(o)
            return Expect("ok")
        if name == "norefs":
            if not P[k][i]:
                return Expect("skip")
            o = m.slot[k][i]
            if o is not None:
                o.pinned = True
            return Expect("ok")

    if name == "mkdev":
        d = I(1)
        if not P["D"][d]:
            return Expect("skip")
        dev = m.new("dev", mode=op[2], alloc=0, mem_use_host=(len(op) > 3 and op[3] == "1"))
        m.maxbound[dev.id] = 0
        m.maxseen[dev.id] = 0
        st = m.new("strm", dev=dev)
        m.attach(("cur", dev.id), st)
        m.attach(("D", d), dev)
        return Expect("ok")

    if name in ("malloc", "wrap", "mkpool", "mkstream", "setstream", "getstream", "build"):
        d = I(1)
        tk = {"malloc": "M", "wrap": "M", "mkpool": "P", "mkstream": "S", "setstream": "S", "getstream": "S", "build": "K"}[name]
        t = I(2)
        if not (P["D"][d] and P[tk][t]):
            return Expect("skip")
        dev = m.slot["D"][d]
        if dev is None:
            return Expect("exc", name + " on uninitialized device")
        if name == "malloc":
            entries, dt, h, useh = I(3), op[4], I(5), I(6)
            useh = useh or (1 if dev.mem_use_host else 0)      # device-level memory/use_host_pointer default
            if entries == 0:
                m.attach(("M", t), None)
                return Expect("ok")
            if entries < 0:
                return Expect("exc", "malloc negative")
            if dt == "unreg":
                return Expect("exc", "malloc with an unregistered dtype")
            size = entries * DT[dt]
            if h >= 0 and useh:
                st, known_src = m.H[h], None
                buf = m.new("buf", dev=dev, size=size, accounted=True, views=[], storage=st, base=0, hostalias=h)
            else:
                st = Storage(size)
                if h >= 0:
                    st.data[:] = m.H[h].data[:size]
                    st.known[:] = m.H[h].known[:size]
                buf = m.new("buf", dev=dev, size=size, accounted=True, views=[], storage=st, base=0, hostalias=None)
            dev.alloc += size
            v = m.new("view", buf=buf, pool=None, storage=st, base=0, size=size, dtype=dt, root=None)
            buf.views.append(v)
            m.attach(("M", t), v)
            return Expect("ok")
        if name == "wrap":
            h, entries, dt = I(3), I(4), op[5]
            if entries < 0:
                return Expect("exc", "wrap negative")
            if dt == "unreg":
                return Expect("exc", "wrap with an unregistered dtype")
            size = entries * DT[dt]
            buf = m.new("buf", dev=dev, size=size, accounted=False, views=[], storage=m.H[h], base=0, hostalias=h)
            v = m.new("view", buf=buf, pool=None, storage=m.H[h], base=0, size=size, dtype=dt, root=None)
            buf.views.append(v)
            m.attach(("M", t), v)
            return Expect("ok")
        if name == "mkpool":
            p = m.new("pool", dev=dev, views=[], lastsize=0)
            m.attach(("P", t), p)
            return Expect("ok")
        if name == "mkstream":
            s = m.new("strm", dev=dev)
            m.attach(("S", t), s)
            return Expect("ok")
        if name == "setstream":
            m.attach(("cur", dev.id), m.slot["S"][t])
            return Expect("ok")
        if name == "getstream":
            m.attach(("S", t), m.internal.get(("cur", dev.id)))
            return Expect("ok")
        if name == "build":
            kk = m.new("kern", dev=dev, idx=I(3))
            m.attach(("K", t), kk)
            return Expect("ok")

    if name == "run":
        k, a, b, n = I(1), I(2), I(3), I(4)
        if not (P["K"][k] and P["M"][a] and P["M"][b]):
            return Expect("skip")
        kk, va, vb = m.slot["K"][k], m.slot["M"][a], m.slot["M"][b]
        if kk is None or va is None or vb is None or va.dtype != "int" or vb.dtype != "int" or 4 * n > va.size or 4 * n > vb.size or n < 0:
            m.undefined = "kernel run outside the generator's contract (C10 judges argument validation)"
            return Expect("either")
        if va is not vb and va.storage is vb.storage and overlap(va.base, va.base + 4 * n, vb.base, vb.base + 4 * n):
            m.undefined = "kernel arguments partially overlap"
        # the generator only emits runs the rule accepts (C10 is about the rest)
        for i in range(n):
            x = int.from_bytes(va.storage.data[va.base + 4 * i:va.base + 4 * i + 4], "little", signed=True)
            kn = all(va.storage.known[va.base + 4 * i:va.base + 4 * i + 4])
            y = (x + 1) if kk.idx == 0 else (2 * x)
            y &= 0xffffffff
            vb.storage.data[vb.base + 4 * i:vb.base + 4 * i + 4] = y.to_bytes(4, "little")
            vb.storage.known[vb.base + 4 * i:vb.base + 4 * i + 4] = bytes([1 if kn else 0]) * 4
        return Expect("ok")

    if name in ("slice", "plus", "cast", "clone"):
        t, s = I(1), I(2)
        if not (P["M"][t] and P["M"][s]):
            return Expect("skip")
        src = m.slot["M"][s]
        if src is None:
            # (on_ok: what the call does when it returns normally instead - an empty handle - so that a
            #  run can continue past this deviation when it is a recorded finding)
            return Expect("exc", name + " of uninitialized memory", on_ok=lambda: m.attach(("M", t), None))
        dsz = DT[src.dtype]
        length = src.size // dsz
        if name == "clone":
            if src.size == 0:
                # cloning an empty view: malloc(0) yields an empty handle; whether the call then raises
                # is fixed neither by the statement nor by the documentation
                return Expect("either", "clone of empty view", on_ok=lambda: m.attach(("M", t), None))
            dev = src.pool.dev if src.pool is not None else src.buf.dev
            st = Storage(src.size)
            d, kn = m.view_bytes(src)
            st.data[:] = d
            st.known[:] = kn
            buf = m.new("buf", dev=dev, size=src.size, accounted=True, views=[], storage=st, base=0, hostalias=None)
            dev.alloc += src.size
            v = m.new("view", buf=buf, pool=None, storage=st, base=0, size=src.size, dtype=src.dtype, root=None)
            buf.views.append(v)
            m.attach(("M", t), v)
            return Expect("ok")
        if name == "cast":
            off, count, newdt = 0, -1, op[3]
            if newdt == "unreg":
                return Expect("exc", "cast to an unregistered dtype")
        elif name == "plus":
            off, count, newdt = I(3), -1, src.dtype
        else:
            off, count, newdt = I(3), I(4), src.dtype
        if off < 0:
            return Expect("exc", "slice negative offset")
        if count == -1:
            if off > length:
                return Expect("exc", "slice offset past end")
            nbytes = dsz * (length - off)
        else:
            if count < 0:
                return Expect("exc", "slice negative count")
            if off + count > length:
                return Expect("exc", "slice out of range")
            nbytes = dsz * count
        owner = src.pool if src.pool is not None else src.buf
        v = m.new("view", buf=src.buf, pool=src.pool, storage=src.storage, base=src.base + dsz * off, size=nbytes,
                  dtype=newdt, root=(src.root if src.root is not None else src))
        owner.views.append(v)
        m.attach(("M", t), v)
        return Expect("ok")

    if name in ("copyMM", "copyToMM"):
        a, b, count, doff, soff = I(1), I(2), I(3), I(4), I(5)
        if not (P["M"][a] and P["M"][b]):
            return Expect("skip")
        if name == "copyMM":
            dst, src, caller = m.slot["M"][a], m.slot["M"][b], m.slot["M"][a]
        else:
            src, dst, caller = m.slot["M"][a], m.slot["M"][b], m.slot["M"][a]
        if dst is None or src is None:
            form = "%s: %s" % (name, "both uninitialized" if dst is None and src is None else
                               ("caller uninitialized" if caller is None else "argument uninitialized"))
            return Expect("exc", form)
        csz = DT[caller.dtype]
        if count < -1:
            return Expect("exc", "copy negative count")
        nbytes = csz * ((caller.size // csz) if count == -1 else count)
        dob, sob = DT[dst.dtype] * doff, DT[src.dtype] * soff
        if doff < 0 or soff < 0 or sob + nbytes > src.size or dob + nbytes > dst.size:
            return Expect("exc", "copy out of range")
        if nbytes and dst.storage is src.storage and overlap(dst.base + dob, dst.base + dob + nbytes, src.base + sob, src.base + sob + nbytes):
            m.undefined = "device-to-device copy between overlapping ranges of one buffer (memcpy)"
        d = src.storage.data[src.base + sob:src.base + sob + nbytes]
        kn = src.storage.known[src.base + sob:src.base + sob + nbytes]
        m.write(dst.storage, dst.base + dob, d, kn)
        return Expect("ok")

    if name in ("copyHM", "copyMH"):
        mi, h, count, off, hoff = I(1), I(2), I(3), I(4), I(5)
        if not P["M"][mi]:
            return Expect("skip")
        v = m.slot["M"][mi]
        if v is None:
            return Expect("exc", name + " on uninitialized memory")
        dsz = DT[v.dtype]
        if count < -1:
            return Expect("exc", "copy negative count")
        nbytes = dsz * ((v.size // dsz) if count == -1 else count)
        ob = dsz * off
        if off < 0 or ob + nbytes > v.size:
            return Expect("exc", "copy out of range")
        if nbytes and v.storage is m.H[h] and overlap(v.base + ob, v.base + ob + nbytes, hoff, hoff + nbytes):
            m.undefined = "host<->device copy between overlapping ranges of one host array (memcpy)"
        if hoff < 0 or hoff + nbytes > HBYTES:
            m.undefined = "host range outside the harness array"
        if name == "copyHM":
            d = m.H[h].data[hoff:hoff + nbytes]
            kn = m.H[h].known[hoff:hoff + nbytes]
            m.write(v.storage, v.base + ob, d, kn)
        else:
            d = v.storage.data[v.base + ob:v.base + ob + nbytes]
            kn = v.storage.known[v.base + ob:v.base + ob + nbytes]
            m.write(m.H[h], hoff, d, kn)
        return Expect("ok")

    if name == "fill":
        mi, val = I(1), I(2)
        if not P["M"][mi]:
            return Expect("skip")
        v = m.slot["M"][mi]
        if v is None:
            return Expect("ok")       # the harness skips the call itself for a null handle
        dsz = DT[v.dtype]
        nbytes = dsz * (v.size // dsz)
        d = bytes(((val + 7 * i) & 0xff) for i in range(nbytes))
        m.write(v.storage, v.base, d, bytes([1]) * nbytes)
        return Expect("ok")

    if name == "hostwrite":
        h, off, ln, val = I(1), I(2), I(3), I(4)
        d = bytes(((val + i) & 0xff) for i in range(ln))
        m.write(m.H[h], off, d, bytes([1]) * ln)
        return Expect("ok")

    if name == "reserve":
        p, t, entries, dt = I(1), I(2), I(3), op[4]
        if not (P["P"][p] and P["M"][t]):
            return Expect("skip")
        pool = m.slot["P"][p]
        if pool is None:
            return Expect("exc", "reserve on uninitialized pool")
        if entries == 0:
            m.attach(("M", t), None)
            return Expect("ok")
        if entries < 0:
            return Expect("exc", "reserve negative")
        if dt == "unreg":
            # (the pool may have grown for the request before the dtype was refused; its size is read, not predicted)
            return Expect("exc", "reserve with an unregistered dtype")
        size = entries * DT[dt]
        st = Storage(size)
        v = m.new("view", buf=None, pool=pool, storage=st, base=0, size=size, dtype=dt, root=None)
        pool.views.append(v)
        m.attach(("M", t), v)
        return Expect("ok", "reserve")

    if name in ("presize", "pshrink", "palign"):
        p = I(1)
        if not P["P"][p]:
            return Expect("skip")
        pool = m.slot["P"][p]
        if name == "pshrink" and pool is None:
            # shrinkToFit() = resize(reserved()); on a null handle reserved() is 0 and resize asserts
            return Expect("exc", "shrinkToFit on uninitialized pool")
        if pool is None:
            return Expect("exc", name + " on uninitialized pool")
        if name == "palign" and I(2) == 0:
            return Expect("exc", "alignment zero")
        if name == "presize":
            return Expect("ok", "presize")      # the bound check against reserved() is made by the oracle
        return Expect("ok", name)

    if name == "nop":
        return Expect("ok")
    raise ValueError("unknown op " + name)
