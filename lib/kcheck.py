"""simrt driver for C21: generated OKL kernels, real serial/openmp translation, real g++,
simulated OpenMP runtime with seeded team sizes, chunk assignment and interleavings,
lockset race detection over the recorded trace, bit-exact output comparison with the Serial
translation."""
import hashlib
import json
import os
import struct
import subprocess

from . import build, common, oklgen

ENG = os.path.join(build.VERIF, "engines", "simrt")
GEN = os.path.join(build.VERIF, "engines", "oklgen")
BIN = os.path.join(build.WORK, "bin")
KCACHE = os.path.join(build.WORK, "kcache")


def ensure_engine():
    build.ensure("plain")
    os.makedirs(BIN, exist_ok=True)
    os.makedirs(KCACHE, exist_ok=True)
    with build.Lock("ksim-tool"):
        build.cxx(os.path.join(BIN, "okl2cpp"), [os.path.join(GEN, "okl2cpp.cpp")], variant="plain")
        build.cxx(os.path.join(BIN, "ksim"),
                  [os.path.join(ENG, "ksim.cpp"), os.path.join(ENG, "simrt.cpp"), os.path.join(ENG, "simomp.cpp")],
                  flags=["-rdynamic", "-pthread"], libs=["-ldl"])


def scratch():
    for d in ("/dev/shm", build.WORK):
        if os.path.isdir(d) and os.access(d, os.W_OK):
            p = os.path.join(d, "occaverif-k")
            os.makedirs(p, exist_ok=True)
            return p
    return build.WORK


class Server:
    def __init__(self, tag):
        self.trace = os.path.join(scratch(), "ksim-%s.trace" % tag)
        self.errfile = os.path.join(build.WORK, "ksim-err-%s.txt" % tag)
        self.proc = None

    def start(self):
        self.err = open(self.errfile, "w")
        self.proc = subprocess.Popen(["setarch", "-R", os.path.join(BIN, "ksim"), self.trace], stdin=subprocess.PIPE,
                                     stdout=subprocess.PIPE, stderr=self.err, text=True, bufsize=1 << 16)
        if self.proc.stdout.readline().strip() != "READY":
            raise RuntimeError("ksim did not start")

    def run(self, ser, omp, n, team, chunkseed, maxchunk, first, dataseed, switches=(), trace=False):
        if self.proc is None or self.proc.poll() is not None:
            self.start()
        self.err.seek(0)
        self.err.truncate()
        p = self.proc
        lines = ["RUN %s %s %d %d %d %d %d %d %d %d" % (ser, omp, n, team, chunkseed, maxchunk, first, dataseed, 1 if trace else 0, len(switches))]
        for (r, t, k, u) in switches:
            lines.append("S %d %d %d %d" % (r, t, k, u))
        p.stdin.write("\n".join(lines) + "\n")
        p.stdin.flush()
        out = {"ser": None, "omp": None, "steps": [], "fired": 0, "regions": 0, "chunks": 0}
        while True:
            line = p.stdout.readline()
            if not line:
                raise RuntimeError("ksim died: " + open(self.errfile).read()[-1500:])
            line = line.rstrip("\n")
            if line.startswith("STATUS "):
                t = line.split()
                out["status"], out["sig"] = int(t[1]), int(t[2])
                break
            if line.startswith("SER "):
                out["ser"] = line[4:]
            elif line.startswith("OMP "):
                out["omp"] = line[4:]
            elif line.startswith("STEPS "):
                t = line.split()
                out["steps"].append((int(t[1]), int(t[2]), int(t[3])))
            elif line.startswith("FIRED "):
                out["fired"] = int(line.split()[1])
            elif line.startswith("REGIONS "):
                out["regions"] = int(line.split()[1])
            elif line.startswith("CHUNKS "):
                out["chunks"] = int(line.split()[1])
        out["stderr"] = ""
        if out["status"] != 0 or out["sig"]:
            try:
                out["stderr"] = open(self.errfile).read()[-1200:]
            except OSError:
                pass
        return out

    def read_trace(self):
        try:
            data = open(self.trace, "rb").read()
        except OSError:
            return []
        recs = []
        for i in range(0, len(data) - 15, 16):
            a, addr = struct.unpack_from("<QQ", data, i)
            recs.append((a >> 56, (a >> 48) & 0xff, (a >> 32) & 0xffff, a & 0xffffffff, addr))
        return recs


_server = None


def server():
    global _server
    if _server is None:
        _server = Server("w%s-%d" % (common.worker_id(), os.getpid()))
    return _server


# ------------------------------------------------------------------ translate + compile (cached by text)

def _sh(cmd):
    return subprocess.run(cmd, stdout=subprocess.PIPE, stderr=subprocess.STDOUT, text=True)


def translate(src, tag):
    d = os.path.join(scratch(), "t-%s-%d" % (common.worker_id(), os.getpid()))
    os.makedirs(d, exist_ok=True)
    okl = os.path.join(d, tag + ".okl")
    with open(okl, "w") as f:
        f.write(src)
    res = {}
    for mode in ("serial", "openmp"):
        out = os.path.join(d, "%s_%s.cpp" % (tag, mode))
        r = _sh([os.path.join(BIN, "okl2cpp"), mode, okl, out])
        if r.returncode != 0:
            return None, "%s translator rejected the kernel: %s" % (mode, r.stdout[-400:])
        res[mode] = open(out).read()
    return res, ""


def compile_so(text, omp):
    """Compile translated C++ into a shared object; cached by content.  OpenMP objects are compiled with
    -fopenmp (real lowering of the pragmas) but linked without libgomp, everything with -fsanitize=thread
    instrumentation and without libtsan."""
    key = hashlib.sha256((("omp:" if omp else "ser:") + text).encode()).hexdigest()[:24]
    so = os.path.join(KCACHE, key + ".so")
    if os.path.exists(so):
        return so, ""
    src = os.path.join(KCACHE, key + ".cpp")
    with open(src, "w") as f:
        f.write(text)
    obj = os.path.join(KCACHE, key + ".o")
    flags = ["-O1", "-fPIC", "-fsanitize=thread", "-std=c++11"] + (["-fopenmp"] if omp else [])
    r = _sh(["g++"] + flags + ["-c", src, "-o", obj])
    if r.returncode != 0:
        return None, r.stdout[-600:]
    tmp = so + ".%d.tmp" % os.getpid()
    r = _sh(["g++", "-shared", "-o", tmp, obj])
    if r.returncode != 0:
        return None, r.stdout[-600:]
    os.replace(tmp, so)
    try:
        os.unlink(obj)
    except OSError:
        pass
    return so, ""


VARIANTS = {
    "static": None,
    "runtime": "#pragma omp parallel for schedule(runtime)",
    "dynamic1": "#pragma omp parallel for schedule(dynamic, 1)",
    "dynamic2": "#pragma omp parallel for schedule(dynamic, 2)",
}


def omp_variant(text, variant):
    rep = VARIANTS[variant]
    if rep is None:
        return text
    return text.replace("#pragma omp parallel for\n", rep + "\n")


# ------------------------------------------------------------------ trace analysis

def analyse(trace):
    """Lockset race detection + conflict points.  Returns (races, conflicts): races = list of
    (region, addr, (tidA, stepA, kindA), (tidB, stepB, kindB)); conflicts = list of (region, addr, accesses)."""
    region = 0
    locks = {}
    by = {}
    for (tid, kind, size, step, addr) in trace:
        if kind == 8:
            region = step
            locks = {}
            continue
        if kind == 3:
            locks.setdefault(tid, set()).add(addr)
            continue
        if kind == 4:
            locks.setdefault(tid, set()).discard(addr)
            continue
        if kind in (1, 2, 5):
            by.setdefault((region, addr), []).append((tid, step, kind, frozenset(locks.get(tid, ()))))
    races = []
    conflicts = []
    for (region, addr), acc in by.items():
        tids = set(a[0] for a in acc)
        if len(tids) < 2:
            continue
        if not any(a[2] in (2, 5) for a in acc):
            continue
        conflicts.append((region, addr, [(a[0], a[1], a[2]) for a in acc]))
        found = None
        for i in range(len(acc)):
            for j in range(i + 1, len(acc)):
                a, b = acc[i], acc[j]
                if a[0] == b[0]:
                    continue
                if a[2] == 1 and b[2] == 1:
                    continue
                if a[2] == 5 and b[2] == 5:
                    continue
                if a[3] & b[3]:
                    continue
                found = (region, addr, a[:3], b[:3])
                break
            if found:
                break
        if found:
            races.append(found)
    return races, conflicts


# ------------------------------------------------------------------ one kernel

def explore_kernel(seed, nruns):
    r = common.rng(seed, "c21")
    k = oklgen.gen(seed)
    res = {"seed": seed, "features": k["features"], "runs": 0, "violations": [], "rejected": None, "fired": 0, "steps": 0,
           "distinct": [], "races_checked": 0, "conflicts": 0, "teams": [], "variants": [], "chunks": 0, "sample": None}
    tr, why = translate(k["source"], "k%d" % (seed % 100000))
    if tr is None:
        res["rejected"] = why
        return res
    ser, why = compile_so(tr["serial"], False)
    if ser is None:
        res["rejected"] = "serial translation does not compile: " + why
        return res
    srv = server()
    khash = hashlib.sha256(k["source"].encode()).hexdigest()[:12]
    n = k["n"]
    done = 0
    attempts = 0
    while done < nruns and attempts < nruns * 2:
        attempts += 1
        variant = r.choice(["static", "static", "runtime", "dynamic1", "dynamic2"])
        omp, why = compile_so(omp_variant(tr["openmp"], variant), True)
        if omp is None:
            res["violations"].append({"class": "openmp-translation-does-not-compile", "text": why[-300:], "kernel": k, "cfg": {"variant": variant}})
            return res
        team = r.choice([1, 2, 2, 3, 4, 4, 5, 8, 16])
        cfg = {"variant": variant, "team": team, "chunkseed": r.randint(1, 10 ** 6), "maxchunk": r.choice([1, 2, 3, 5]),
               "first": r.randint(1, team), "dataseed": r.randint(1, 10 ** 6), "switches": []}
        out = srv.run(ser, omp, n, team, cfg["chunkseed"], cfg["maxchunk"], cfg["first"], cfg["dataseed"], trace=True)
        done += 1
        res["runs"] += 1
        res["teams"].append(team)
        res["variants"].append(variant)
        res["chunks"] += out.get("chunks", 0)
        res["steps"] += sum(s[2] for s in out["steps"])
        v = judge(out)
        races, conflicts = ([], [])
        if not v:
            races, conflicts = analyse(srv.read_trace())
            res["races_checked"] += 1
            res["conflicts"] += len(conflicts)
            if races:
                rg, addr, a, b = races[0]
                v = [("data-race", "region %d: thread %d (%s at its scheduling point %d) and thread %d (%s at %d) touch the same address without ordering" %
                      (rg, a[0], KIND[a[2]], a[1], b[0], KIND[b[2]], b[1]))]
        if v:
            res["violations"].append({"class": v[0][0], "text": v[0][1], "kernel": k, "cfg": cfg})
            return res
        res["distinct"].append("%s:%s:%d:%d:%d" % (khash, variant, team, cfg["chunkseed"] if variant != "static" else 0, cfg["first"]))
        # scripted schedules around the conflicting (atomic / critical) accesses of this configuration
        nsched = 0
        for (rg, addr, acc) in r.sample(conflicts, min(len(conflicts), 3)):
            if nsched >= 3 or done >= nruns:
                break
            (ta, sa, ka) = r.choice(acc)
            others = sorted(set(t for (t, s, kk) in acc if t != ta))
            if not others:
                continue
            tb = r.choice(others)
            sw = [(rg, ta, max(1, sa + r.choice([0, 1])), tb)]
            if r.random() < 0.5:
                sb = r.choice([s for (t, s, kk) in acc if t == tb])
                sw.append((rg, tb, sb + 1, ta))
            cfg2 = dict(cfg, switches=[list(x) for x in sw])
            out2 = srv.run(ser, omp, n, team, cfg["chunkseed"], cfg["maxchunk"], cfg["first"], cfg["dataseed"], switches=sw)
            nsched += 1
            done += 1
            res["runs"] += 1
            res["fired"] += out2["fired"]
            res["steps"] += sum(s[2] for s in out2["steps"])
            if out2["fired"]:
                res["distinct"].append("%s:%s:%d:%s" % (khash, variant, team, sw))
            v = judge(out2)
            if v:
                res["violations"].append({"class": v[0][0], "text": v[0][1], "kernel": k, "cfg": cfg2})
                return res
        if res["sample"] is None:
            res["sample"] = {"kernel": k["source"], "n": n, "config": cfg, "steps_per_thread": out["steps"][:8],
                             "conflicting_addresses": len(conflicts)}
    return res


KIND = {1: "read", 2: "write", 5: "atomic"}


def judge(out):
    if out["status"] == 78:
        kind, text = "simrt-report", out["stderr"].strip()[-300:]
        for line in out["stderr"].splitlines():
            if line.startswith("SIMRT-REPORT"):
                text = line
                kind = line.split("kind=")[1].split()[0]
        return [("ENGINE" if kind == "engine" else kind, text)]
    if out["sig"] in (24, 9):
        return [("hang", "the run used 60 s of CPU time without terminating (a run takes well under a second)")]
    if out["sig"]:
        return [("crash", "signal %d" % out["sig"])]
    if out["status"] != 0:
        return [("ENGINE", "ksim exit status %s: %s" % (out["status"], out["stderr"][-300:]))]
    if out["ser"] != out["omp"]:
        a, b = bytes.fromhex(out["ser"]), bytes.fromhex(out["omp"])
        i = next(i for i in range(len(a)) if a[i] != b[i])
        arr, idx = ("out0", i // 4) if i < 256 else (("out1", (i - 256) // 4) if i < 512 else ("fout", (i - 512) // 4))
        va = int.from_bytes(a[(i // 4) * 4:(i // 4) * 4 + 4], "little", signed=True)
        vb = int.from_bytes(b[(i // 4) * 4:(i // 4) * 4 + 4], "little", signed=True)
        return [("output-mismatch", "%s[%d]: Serial translation gives %d (raw word), OpenMP translation gives %d" % (arr, idx, va, vb))]
    return []


def replay_one(kernel, cfg):
    tr, why = translate(kernel["source"], "replay")
    if tr is None:
        return [("rejected", why)], {}
    ser, _ = compile_so(tr["serial"], False)
    omp, why = compile_so(omp_variant(tr["openmp"], cfg["variant"]), True)
    if omp is None:
        return [("openmp-translation-does-not-compile", why[-300:])], {}
    srv = server()
    sw = [tuple(x) for x in cfg.get("switches", [])]
    out = srv.run(ser, omp, kernel["n"], cfg["team"], cfg["chunkseed"], cfg["maxchunk"], cfg["first"], cfg["dataseed"], switches=sw, trace=True)
    v = judge(out)
    if not v:
        races, _ = analyse(srv.read_trace())
        if races:
            rg, addr, a, b = races[0]
            v = [("data-race", "region %d: thread %d (%s at %d) and thread %d (%s at %d) touch the same address without ordering" %
                  (rg, a[0], KIND[a[2]], a[1], b[0], KIND[b[2]], b[1]))]
    return v, out
