"""C30 — with sharable devices, concurrent handle use is race-free.

Engine simrt: libocca built with ENABLE_SHARABLE_DEVICE=ON and TSan-ABI instrumentation runs
against our own runtime; 2-16 simulated threads (real pthreads, one runnable at a time) execute
seeded handle workloads on one device; a traced dry run yields the conflicting accesses, from
which race-directed and random scripted schedules are drawn; the oracle is outcome based
(double free / use after free / out-of-block by the heap checker, crashes, and after the join:
handle states, contents, live backend-object counts and memoryAllocated() against the
sequential reference model)."""
import json
import time

from .. import common
from .. import tcheck

PROP = "C30"


def _task(t):
    seed, nsched = t
    if isinstance(seed, dict):        # a corpus entry: one scenario with one scripted schedule
        v, out = tcheck.replay_one(seed["scenario"], seed["switches"])
        return {"seed": 0, "nthreads": len(seed["scenario"]["threads"]), "runs": 1, "steps": sum(out.get("steps", {}).values()),
                "fired": out.get("fired", 0), "deadlocks": 0, "conflicts": 0, "distinct": [], "sample": None,
                "violations": ([{"class": v[0][0], "text": v[0][1], "scenario": seed["scenario"], "switches": seed["switches"]}]
                               if v and v[0][0] != "deadlock" else [])}
    return tcheck.explore_scenario(seed, nsched)


def _corpus():
    import os
    d = os.path.join(common.VERIF, "corpus", PROP)
    out = []
    try:
        names = sorted(os.listdir(d))
    except OSError:
        return out
    for n in names:
        if n.endswith(".json"):
            try:
                with open(os.path.join(d, n)) as f:
                    rp = json.load(f)
                out.append({"scenario": rp["scenario"], "switches": rp["switches"]})
            except (OSError, ValueError, KeyError):
                pass
    return out


def _min_task(t):
    scn, sw, cls = t
    ms, msw = tcheck.minimise(scn, sw, cls)
    a, oa = tcheck.replay_one(ms, msw)
    b, ob = tcheck.replay_one(ms, msw)
    return ms, msw, a, b, oa.get("steps"), ob.get("steps")


def signature(cls, scn, sw):
    involved = sorted(set(x[0] for x in sw) | set(x[2] for x in sw))
    kinds = set()
    for t in involved:
        if 1 <= t <= len(scn["threads"]):
            for op in scn["threads"][t - 1]:
                p = op.split()
                kinds.add(p[0] + (":" + p[1] if p[0] in ("del", "assign", "free", "copy") else ""))
    return "%s|%s|ops=%s" % (PROP, cls, ",".join(sorted(kinds)))


def main(tier):
    tcheck.ensure_engine()
    seed = common.base_seed()
    rep = common.Report(PROP, tier, "exploration", seed)
    pool = common.Pool()
    deadline = time.time() + common.budget(tier, 60, 900)
    nsched = 12 if tier == "quick" else 40
    agg = {"runs": 0, "steps": 0, "fired": 0, "deadlocks": 0, "conflicts": 0, "scenarios": 0}
    by_threads = {}
    raw = {}
    pending = []

    def tasks():
        for c in _corpus():
            yield (c, nsched)
        i = 0
        while True:
            yield (common.run_seed(seed, i, PROP), nsched)
            i += 1

    def on_result(task, r):
        agg["scenarios"] += 1
        agg["runs"] += r["runs"]
        agg["steps"] += r["steps"]
        agg["fired"] += r["fired"]
        agg["deadlocks"] += r["deadlocks"]
        agg["conflicts"] += r["conflicts"]
        by_threads[r["nthreads"]] = by_threads.get(r["nthreads"], 0) + 1
        rep.evaluations += r["runs"]
        for d in r["distinct"]:
            rep.nontrivial.add(d)
        if len(rep.samples) < 3 and r.get("sample") and r["fired"]:
            rep.samples.append(r["sample"])
        for v in r["violations"]:
            if v["class"] == "ENGINE":
                rep.engine_errors.append(v["text"])
                continue
            raw[v["class"]] = raw.get(v["class"], 0) + 1
            if raw[v["class"]] <= 2 and len(pending) < 6:
                pending.append((v["scenario"], v["switches"], v["class"]))

    n, errors = pool.run(_task, tasks(), deadline, on_result)
    for (t, e) in errors:
        rep.engine_errors.append(e)
    for (ms, msw, a, b, sa, sb) in (pool.map(_min_task, pending) if pending else []):
        if not a or not b or a[0][0] != b[0][0] or sa != sb:
            rep.engine_errors.append("minimised schedule did not replay deterministically: %s %s" % (json.dumps(msw), json.dumps(ms)[:600]))
            continue
        cls = a[0][0]
        sig = signature(cls, ms, msw)
        replay = {"property": PROP, "engine": "simrt", "class": cls, "signature": sig, "scenario": ms, "switches": msw,
                  "violation": a[0][1]}
        rep.add_violation(sig, replay, "%s   [threads: %s; switches (thread, step, run-instead): %s]" %
                          (a[0][1], json.dumps([t for t in ms["threads"] if t]), json.dumps(msw)))
    pool.close()
    wall = max(time.time() - rep.t0, 1e-9)
    rep.rule = ("one run = one scripted schedule of one seeded workload (2-16 simulated threads on one shared device: copy/assign/drop handles "
                "to shared memories and kernels, malloc/free, slices, pools, kernel build+run, streams, device handle copies); per workload "
                "one traced dry run, then schedules drawn from the conflicting accesses it shows (stop thread A at its access to X, run B "
                "past its access to X) and from uniform random preemption points; non-trivial = at least one scripted context switch "
                "fired; distinct = (workload hash, switch list)")
    rep.cov.update({
        "workloads": agg["scenarios"], "schedules_run": agg["runs"], "scheduling_points_executed": agg["steps"],
        "context_switches_fired": agg["fired"], "conflicting_addresses_seen_in_dry_runs": agg["conflicts"],
        "deadlock_reports_not_counted_as_violations": agg["deadlocks"], "workloads_by_thread_count": by_threads,
        "raw_violations_by_class": raw,
        "seeds_per_hour": round(agg["scenarios"] / wall * 3600.0, 1),
        "faults_injected": {"preemption at an instrumented memory access / atomic / mutex operation": agg["fired"]},
        "components": {"real": ["libocca built from /repo's working tree with ENABLE_SHARABLE_DEVICE=ON, -fsanitize=thread instrumentation (no libtsan) and -DLIBOCCA_OCCA_VERIF",
                                 "real pthreads, real thread_local storage, real kernels from a warm cache"],
                       "stub": ["TSan runtime replaced by simrt (scheduler + heap checker)", "pthread_mutex_lock/unlock simulated",
                                 "malloc/free/new/delete replaced by a never-reusing arena with a freed/never-allocated shadow map"]},
    })
    rep.assumptions = [
        "each thread touches only its own handle variables; shared objects are reached by copying handles that the main thread keeps stable during the run",
        "preemption happens only at instrumented accesses, atomics and mutex operations of libocca (out-of-line libstdc++/libc code is atomic)",
        "maxMemoryAllocated() is not judged under concurrency (it is schedule dependent); deadlocks are reported in the evidence, not as violations",
    ]
    return rep.finish()


def replay(path):
    tcheck.ensure_engine()
    with open(path) as f:
        rp = json.load(f)
    v, out = tcheck.replay_one(rp["scenario"], rp["switches"])
    print("replay: %s steps=%s" % (v, out.get("steps")))
    if v and v[0][0] == rp["class"]:
        print("VIOLATION property=%s replay=%s" % (PROP, path))
        return 1
    return 0
