"""C20 — translated kernels compute what the OKL kernel means, on every backend.

Engines oklgen + simrt + gpusim: a generated OKL kernel (independent iterations by construction) is
translated by all seven real translators; Serial and OpenMP translations are compiled and run (OpenMP on the
simulated OpenMP runtime), CUDA / HIP / OpenCL / Metal / DPC++ device code and the emitted host launcher
are compiled by g++ against shim headers and run under an emulation of the launch model on the
deterministic thread scheduler (seeded block order, threads of a block as simulated threads, barriers,
scripted preemptions at conflicting accesses).  Oracles: outputs equal the generator's own sequential
reference; no unordered conflicting access pair under the launch model's happens-before; guard zones."""
import json
import time

from .. import common
from .. import gcheck

PROP = "C20"


def _task(t):
    seed, nruns = t
    if isinstance(seed, dict):
        v, out, info = gcheck.run_config(seed["kernel"], seed["mode"], seed["cfg"])
        return {"seed": 0, "features": seed["kernel"].get("features", []), "runs": 1, "rejected": {}, "fired": out.get("fired", 0),
                "steps": sum(s[-1] for s in out.get("steps", [])), "distinct": [], "modes": {seed["mode"]: 1}, "blocks": out.get("blocks", 0),
                "sample": None, "known": {},
                "violations": ([{"class": v[0][0], "text": v[0][1], "kernel": seed["kernel"], "mode": seed["mode"], "cfg": seed["cfg"]}]
                               if v and v[0][0] != "rejected" else [])}
    return gcheck.explore_kernel(seed, nruns)


def _replay_task(t):
    kernel, mode, cfg = t
    a, oa, _ = gcheck.run_config(kernel, mode, cfg)
    b, ob, _ = gcheck.run_config(kernel, mode, cfg)
    return kernel, mode, cfg, a, b, oa.get("steps"), ob.get("steps")


def signature(cls, mode, kernel):
    """class + backend + whether the kernel uses @atomic at all / the block form (the two recorded findings are
    about @atomic in particular backends; anything else carries the full feature list)."""
    feats = kernel.get("features", [])
    if mode in ("opencl", "metal") and "atomic" in feats and (cls == "data-race" or cls in ("output-mismatch:out1", "output-mismatch:fout")):
        return "%s|atomic-not-atomic|mode=%s" % (PROP, mode)
    if mode == "dpcpp" and ("atomic-block" in feats or "atomic-assign" in feats) and cls == "translation-does-not-compile":
        return "%s|atomic-block-does-not-compile|mode=dpcpp" % PROP
    if mode == "openmp" and "atomic-mixed-forms" in feats and (cls == "data-race" or cls in ("output-mismatch:out1",)):
        return "%s|mixed-atomic-forms|mode=openmp" % PROP
    if cls == "host-variable-not-passed-to-device-kernel":
        return "%s|host-variable-not-passed-to-device-kernel|mode=%s" % (PROP, mode)
    return "%s|%s|mode=%s|features=%s" % (PROP, cls, mode, ",".join(feats))


def _corpus():
    import os
    d = os.path.join(common.VERIF, "corpus", PROP)
    out = []
    try:
        names = sorted(os.listdir(d))
    except OSError:
        return out
    for n in names:
        if n.endswith(".json"):
            try:
                with open(os.path.join(d, n)) as f:
                    rp = json.load(f)
                out.append({"kernel": rp["kernel"], "mode": rp["mode"], "cfg": rp["cfg"]})
            except (OSError, ValueError, KeyError):
                pass
    return out


def main(tier):
    gcheck.ensure_engine()
    seed = common.base_seed()
    rep = common.Report(PROP, tier, "exploration", seed)
    pool = common.Pool()
    deadline = time.time() + common.budget(tier, 75, 900)
    nruns = 14
    agg = {"kernels": 0, "runs": 0, "steps": 0, "fired": 0, "blocks": 0}
    feats, modes, rejected, raw = {}, {}, {}, {}
    pending = {}

    def tasks():
        for c in _corpus():
            yield (c, nruns)
        i = 0
        while True:
            yield (common.run_seed(seed, i, PROP), nruns)
            i += 1

    def on_result(task, r):
        agg["kernels"] += 1
        for k in ("runs", "steps", "fired", "blocks"):
            agg[k] += r[k]
        rep.evaluations += r["runs"]
        for f in r["features"]:
            feats[f] = feats.get(f, 0) + 1
        for m, c in r["modes"].items():
            modes[m] = modes.get(m, 0) + c
        for m in r["rejected"]:
            rejected[m] = rejected.get(m, 0) + 1
        for d in r["distinct"]:
            rep.nontrivial.add(d)
        if len(rep.samples) < 3 and r.get("sample"):
            rep.samples.append(r["sample"])
        for v in r["violations"]:
            if v["class"] == "ENGINE":
                rep.engine_errors.append(v["text"])
                continue
            sig = signature(v["class"], v["mode"], v["kernel"])
            raw[sig] = raw.get(sig, 0) + 1
            if sig not in pending and len(pending) < 10:
                pending[sig] = (v["kernel"], v["mode"], v["cfg"])

    n, errors = pool.run(_task, tasks(), deadline, on_result)
    for (t, e) in errors:
        rep.engine_errors.append(e)
    for (kernel, mode, cfg, a, b, sa, sb) in (pool.map(_replay_task, list(pending.values())) if pending else []):
        if not a or not b or a[0][0] != b[0][0] or sa != sb:
            rep.engine_errors.append("violation did not replay deterministically: %s %s %s" % (a, mode, json.dumps(cfg)))
            continue
        cls = a[0][0]
        sig = signature(cls, mode, kernel)
        replay = {"property": PROP, "engine": "gpusim+simrt+oklgen", "class": cls, "signature": sig, "kernel": kernel, "mode": mode, "cfg": cfg,
                  "violation": a[0][1]}
        rep.add_violation(sig, replay, "%s backend: %s   [config %s]\n%s" % (mode, a[0][1][:600], json.dumps(cfg), kernel["source"]))
    pool.close()
    wall = max(time.time() - rep.t0, 1e-9)
    rep.rule = ("one run = one generated OKL kernel x one backend (serial, openmp, cuda, hip, opencl, metal, dpcpp) x one schedule "
                "configuration (seeded block order / team size / chunking, optional scripted preemption at a conflicting access); "
                "non-trivial = the backend accepted and ran the kernel; distinct = (kernel hash, backend, configuration)")
    rep.cov.update({
        "kernels_generated": agg["kernels"], "backend_runs": agg["runs"], "runs_by_backend": modes,
        "kernels_rejected_by_backend_translator": rejected, "thread_blocks_emulated": agg["blocks"],
        "scheduling_points_executed": agg["steps"], "scripted_switches_fired": agg["fired"], "kernels_by_feature": feats,
        "raw_violations_by_signature": raw,
        "seeds_per_hour": round(agg["kernels"] / wall * 3600.0, 1),
        "faults_injected": {"preemption at a conflicting access inside a block / team": agg["fired"], "seeded block order": agg["blocks"]},
        "components": {"real": ["all seven OCCA translators and the emitted host launcher (libocca built from /repo's working tree)",
                                 "g++ as the compiler of every translation"],
                       "stub": ["CUDA/HIP/OpenCL/Metal/SYCL headers replaced by ~100-line shims mapping the dialect onto the emulator",
                                 "occa::kernel/occa::dim stand-in for the launcher", "GPU hardware replaced by the launch-model emulator (blocks sequential in seeded order)",
                                 "libgomp replaced by the simulated OpenMP runtime"]},
    })
    rep.assumptions = [
        "the reference is the generator's own sequential rendering of the kernel (an @exclusive value belongs to the position in the inner loop's iteration order)",
        "blocks of a launch run one after another; races between blocks are decided on the trace (global-memory accesses of different blocks are unordered unless both atomic)",
        "kernels whose features a backend's translator rejects (e.g. @atomic blocks on cuda/hip) are counted as rejected, not as violations",
    ]
    return rep.finish()


def replay(path):
    gcheck.ensure_engine()
    with open(path) as f:
        rp = json.load(f)
    v, out, _ = gcheck.run_config(rp["kernel"], rp["mode"], rp["cfg"])
    print("replay: %s" % (v,))
    if v and v[0][0] == rp["class"]:
        print("VIOLATION property=%s replay=%s" % (PROP, path))
        return 1
    return 0
