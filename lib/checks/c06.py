"""C06 — kernel cache keys separate every build configuration.

A history of builds, each in a fresh simulated process, shares one cache directory.  Every
build must compute the vector that the *same configuration built on an empty cache*
computes (isolated reference run: no sharing possible there), distinct configurations
must never resolve to the same cached binary, and a repeated configuration must resolve to
the same entry without running the compiler."""
import hashlib
import json
import os

from .. import common, pscheck
from .. import procsim as ps
from .. import simcache as sc

PROP = "C06"
N = 14

KERNEL = r'''#ifdef __OKL__
#include <okinc.h>
#define OKLV 1
#define KSIG @kernel void k(const int n, int *out)
#define LOOPS for (int b = 0; b < 1; ++b; @outer) for (int t = 0; t < 1; ++t; @inner)
#else
#define INCP 0
#define OKLV 2
#define LOOPS
#ifdef __cplusplus
#define KSIG extern "C" void k(const int &n, int *out)
#else
#define KSIG void k(const int *n, int *out)
#endif
#endif
#ifdef __cplusplus
#define LANGV 1
#else
#define LANGV 2
#endif
KSIG {
  LOOPS {
    out[0] = %(src)d;
    out[1] = DEF_D;
    out[2] = INC_I;
    out[3] = HDR_H;
    out[4] = SIM_COMPILER_ID;
    out[5] = FA; out[6] = FB; out[7] = FP;
    out[8] = SIM_ENV_D;
    out[9] = LANGV;
    out[10] = OKLV;
    out[11] = addk(10);
    out[12] = %(src)d + DEF_D;
    out[13] = INCP;
  }
}
'''

FLAG_POOL = [
    "-fPIC -shared -O1 -DFA=1 -DFB=1 -DFP=1",
    "-fPIC -shared -O1 -DFA=2 -DFB=1 -DFP=2",
    "-fPIC -shared -O1 -DFA=1 -DFB=2 -DFP=3",
    # flag strings in which tokens repeat and the repetition matters (define, undefine, define again): the later
    # one extends the earlier one by tokens that all occurred before
    "-fPIC -shared -O1 -DFA=1 -DFB=1 -DFP=1 -UFP -DFP=2",
    "-fPIC -shared -O1 -DFA=1 -DFB=1 -DFP=1 -UFP -DFP=2 -UFP -DFP=1",
]

# property -> list of values (index 0 = base)
SPACE = {
    "src": [7, 8],
    "defines": [5, 6],
    "includes": ["inc1.h", "inc2.h"],
    "headers": ["#define HDR_H 4", "#define HDR_H 5"],
    "functions": [0, 1],
    "compiler": ["simcc", "simcc-b"],
    "compiler_flags": FLAG_POOL,
    "compiler_linker_flags": FLAG_POOL,
    "compiler_shared_flags": FLAG_POOL,
    "compiler_env_script": ["export SIM_ENV_D=1", "export SIM_ENV_D=2"],
    "compiler_language": ["cpp", "c"],
    "okl": [True, False],
    # okl/include_paths: two directories that each hold a different okinc.h (an okl setting; only an input with OKL on)
    "okl_inc": ["incA", "incB"],
    # how `defines` and `compiler_flags` reach the build: 0 top-level build property; 1 under modes/<mode> of the build
    # properties with a decoy (the other value) at top level; 2 device-level kernel/<prop>; 3 top-level with a decoy under
    # another mode's section (which must never take effect)
    "ch_defines": [0, 1, 2, 3],
    "ch_flags": [0, 1, 2, 3],
    # how the source text reaches the build: buildKernelFromString, or buildKernel on a file that the building process
    # (re)writes in place right before the build (the text is the input, the channel is not)
    "kind": ["string", "file"],
}
FLAG_PROPS = ["compiler_flags", "compiler_linker_flags", "compiler_shared_flags"]
KEYS = sorted(SPACE)


def base_cfg():
    return {k: 0 for k in KEYS}


def cfg_key(cfg):
    return ",".join("%s=%d" % (k, cfg[k]) for k in KEYS)


def effective_key(cfg, env=None):
    """Configurations are distinct build inputs iff their property values differ; the one
    exception: compiler_language is only an input when OKL is off (with OKL on the language
    is always C++ — serial::device::buildKernel)."""
    c = dict(cfg)
    if SPACE["okl"][c["okl"]]:
        c["compiler_language"] = 0
    else:
        c["okl_inc"] = 0
    # the channel through which a value arrives is not a build input, the value is
    c["ch_defines"] = c["ch_flags"] = c["kind"] = 0
    # a linker-flags property is overridden by OCCA_LDFLAGS when the (fixed) environment sets it
    if env and "OCCA_LDFLAGS" in env:
        c["compiler_linker_flags"] = 0
    return cfg_key(c)


def job_spec(cfg, sb_proj, mode="Serial"):
    """Returns (job, device_props)."""
    v = {k: SPACE[k][cfg[k]] for k in KEYS}
    props = {
        "includes": [os.path.join(sb_proj, v["includes"])],
        "headers": [v["headers"]],
        "compiler": os.path.join(ps.BIN, v["compiler"]),
        "compiler_linker_flags": v["compiler_linker_flags"],
        "compiler_shared_flags": v["compiler_shared_flags"],
        "compiler_env_script": v["compiler_env_script"],
        "compiler_language": v["compiler_language"],
        "okl": {"enabled": v["okl"], "include_paths": [os.path.join(sb_proj, v["okl_inc"])]},
    }
    dev = {}
    other = "OpenMP" if mode == "Serial" else "Serial"

    def place(channel, name, value, decoy):
        if channel == 0:
            props[name] = value
        elif channel == 1:
            props[name] = decoy
            props.setdefault("modes", {}).setdefault(mode, {})[name] = value
        elif channel == 2:
            dev.setdefault("kernel", {})[name] = value
        else:
            props[name] = value
            props.setdefault("modes", {}).setdefault(other, {})[name] = decoy
    dvals = SPACE["defines"]
    place(v["ch_defines"], "defines", {"DEF_D": v["defines"]}, {"DEF_D": dvals[(cfg["defines"] + 1) % len(dvals)]})
    place(v["ch_flags"], "compiler_flags", v["compiler_flags"], FLAG_POOL[(cfg["compiler_flags"] + 1) % len(FLAG_POOL)])
    job = {"kind": "string", "kernel": "k", "n": N, "source": KERNEL % {"src": v["src"]},
           "props": props, "fnvariant": v["functions"]}
    if v["kind"] == "file":
        path = os.path.join(sb_proj, "k06.okl")
        job = {"kind": "file", "kernel": "k", "n": N, "file": path, "prewrite": {path: KERNEL % {"src": v["src"]}},
               "props": props, "fnvariant": v["functions"]}
    return job, dev


ENVS = [{}, {}, {}, {"OCCA_CXXFLAGS": FLAG_POOL[1]}, {"CXXFLAGS": FLAG_POOL[2]}, {"OCCA_LDFLAGS": FLAG_POOL[1]},
        {"OCCA_CXXFLAGS": "-O2", "CXXFLAGS": "-O1"}]


def vspec(mode, cfg, sb, env=None):
    job, dev = job_spec(cfg, sb.proj, mode)
    return ps.VProcSpec({"mode": mode, "device": dev, "jobs": [job]}, env=dict(env or {}))


def gen(seed, index):
    r = common.rng(seed, "c06")
    base = base_cfg()
    # a random base point, so that coincidences are explored around different centres
    for k in KEYS:
        if r.random() < 0.25:
            base[k] = r.randrange(len(SPACE[k]))
    hist = [dict(base)]
    fam = r.choice(["single", "swap", "equal", "mixed", "mixed", "rewrite"])
    if fam == "rewrite":
        # one kernel file rewritten in place with texts of equal length, the builds before and after a rewrite in one process
        base["kind"] = 1
        hist = [dict(base)]
    nb = r.randint(5, 9)
    while len(hist) < nb:
        c = dict(r.choice(hist))
        kind = fam if fam != "mixed" else r.choice(["single", "swap", "equal", "single"])
        if kind == "rewrite":
            c = dict(hist[-1])
            k = "src" if r.random() < 0.75 else r.choice(["defines", "compiler_flags", "headers"])
            c[k] = (c[k] + 1) % len(SPACE[k])
        elif kind == "single":
            k = r.choice(KEYS)
            c[k] = (c[k] + r.randint(1, len(SPACE[k]) - 1)) % len(SPACE[k])
        elif kind == "swap":
            a, b = r.sample(FLAG_PROPS, 2)
            if c[a] == c[b]:
                c[b] = (c[b] + 1) % len(FLAG_POOL)
            c[a], c[b] = c[b], c[a]
        else:  # equal values in two properties, then another equal pair
            a, b = r.sample(FLAG_PROPS, 2)
            val = r.randrange(len(FLAG_POOL))
            c[a] = c[b] = val
        hist.append(c)
    # repeats of earlier configurations
    for _ in range(r.randint(1, 3)):
        hist.insert(r.randint(1, len(hist)), dict(r.choice(hist)))
    scn = {"seed": seed, "mode": r.choice(["Serial", "Serial", "OpenMP"]), "history": hist, "env": r.choice(ENVS)}
    # builds per simulated process: 1 = a fresh process per build; k > 1 = up to k consecutive builds share one process
    scn["inproc"] = r.choice([1, 1, 1, 2, 3]) if fam != "rewrite" else r.choice([2, 3, 4])
    # an editor process rewrites the kernel file with the other text WHILE build i runs (seeded start delay); that build is
    # not judged, the builds after it are (the file is put back by the next builder itself)
    scn["races"] = {}
    if fam == "rewrite" and r.random() < 0.35:
        scn["inproc"] = 1
        for i in range(len(hist) - 1):
            if r.random() < 0.4:
                scn["races"][str(i)] = r.randint(0, 150)
    return scn


def systematic():
    """One-factor-at-a-time histories, run before the seeded exploration: for every listed property two builds that differ
    in that property only (every alternative value), for defines / compiler_flags additionally through every supply
    channel, and the flag properties under every fixed environment.  A repeat of the first build closes each history."""
    out = []

    def hist(a, b, env=None, mode="Serial", inproc=1):
        out.append({"seed": 1000 + len(out), "mode": mode, "history": [dict(a), dict(b), dict(a)], "env": env or {},
                    "inproc": inproc, "races": {}})
    base = base_cfg()
    for k in KEYS:
        if k in ("ch_defines", "ch_flags", "kind"):
            continue
        for v in range(1, len(SPACE[k])):
            a = dict(base)
            if k == "compiler_language":
                a["okl"] = 1                  # the language only counts with OKL off
            if k == "okl_inc":
                a["okl"] = 0
            hist(a, dict(a, **{k: v}))
    for ch in range(1, len(SPACE["ch_defines"])):
        a = dict(base, ch_defines=ch)
        hist(a, dict(a, defines=1))
        a = dict(base, ch_flags=ch)
        hist(a, dict(a, compiler_flags=1))
    for env in ENVS[3:]:
        for k in FLAG_PROPS:
            hist(base, dict(base, **{k: 1}), env=env)
    for k in FLAG_PROPS:
        hist(dict(base, **{k: 3}), dict(base, **{k: 4}))
    a = dict(base, kind=1)
    hist(a, dict(a, src=1))
    hist(a, dict(a, src=1), inproc=3)
    hist(base, dict(base, defines=1), mode="OpenMP")
    return out


_ref_cache = {}


def reference(mode, cfg, sb, seed, env=None):
    """Isolated run: the configuration built on an empty cache (in the scenario's fixed environment)."""
    key = mode + "|" + cfg_key(cfg) + "|" + json.dumps(env or {}, sort_keys=True)
    if key in _ref_cache:
        return _ref_cache[key]
    sb.reset()
    _write_includes(sb)
    g = ps.run_group(sb, seed, [vspec(mode, cfg, sb, env)], strategy=("rtb", 0, 1))
    o = g.outputs[0][0] if g.outputs[0] else {"status": "none"}
    res = {"status": o.get("status"), "out": o.get("out"), "what": o.get("what", ""), "sig": g.vp[0]["sig"]}
    _ref_cache[key] = res
    return res


def _write_includes(sb):
    sb.write_proj("inc1.h", "#define INC_I 3\n")
    sb.write_proj("inc2.h", "#define INC_I 9\n")
    sb.write_proj("incA/okinc.h", "#define INCP 1\n")
    sb.write_proj("incB/okinc.h", "#define INCP 2\n")


def execute(scn, sb):
    seed, mode = scn["seed"], scn["mode"]
    hist = [dict(base_cfg(), **c) for c in scn["history"]]      # (replays written before a dimension existed lack its key)
    env = scn.get("env") or {}
    refs = [reference(mode, c, sb, seed, env) for c in hist]
    sb.reset()
    _write_includes(sb)
    steps = 0
    violations = []
    seen = {}          # effective key -> (hash, binary, index)
    by_binary = {}     # binary -> (effective key, index)
    logs = []
    builds = []
    inproc = max(1, scn.get("inproc", 1))
    raced = set()      # builds that overlapped a rewrite of their kernel file: not judged
    results = []       # per build: (output line, vproc result, compiles or None)
    for g0 in range(0, len(hist), inproc):
        group = hist[g0:g0 + inproc]
        jobs = []
        for cfg in group:
            job, dev = job_spec(cfg, sb.proj, mode)
            if len(group) > 1:
                job["device"] = dev
            jobs.append((job, dev))
        vp = ps.VProcSpec({"mode": mode, "device": jobs[0][1] if len(group) == 1 else {}, "jobs": [j[0] for j in jobs]}, env=dict(env))
        race = (scn.get("races") or {}).get(str(g0)) if len(group) == 1 and group[0]["kind"] == 1 else None
        if race is not None:
            other = dict(group[0], src=(group[0]["src"] + 1) % len(SPACE["src"]))
            path = os.path.join(sb.proj, "k06.okl")
            editor = ps.VProcSpec({"mode": mode, "jobs": [{"kind": "none", "kernel": "k", "prewrite": {path: KERNEL % {"src": SPACE["src"][other["src"]]}}}]},
                                  delay=race)
            g = ps.run_group(sb, seed + g0, [vp, editor], strategy=("uniform",), clock0=steps * 10 ** 6)
            raced.add(g0)
        else:
            g = ps.run_group(sb, seed, [vp], strategy=("rtb", 0, 1), clock0=steps * 10 ** 6)
        steps += g.gsteps
        logs += g.log
        by = {o.get("job"): o for o in g.outputs[0]}
        for j in range(len(group)):
            results.append((by.get(j, by.get(-1, {"status": "none"})), g.vp[0], g.vp[0]["compiles"] if len(group) == 1 else None))
    for i, cfg in enumerate(hist):
        o, vpres, compiles = results[i]
        if i in raced:
            continue
        ref = refs[i]
        ek = effective_key(cfg, env)
        builds.append({"cfg": cfg_key(cfg), "status": o.get("status"), "out": o.get("out"), "compiles": compiles})
        if ref["status"] != "ok" or ref["sig"]:
            # the configuration does not even build on an empty cache: not a C06 matter, skip it
            continue
        if vpres["sig"] and o.get("status") in (None, "none"):
            violations.append(["crash", "build %d (%s) died with signal %d" % (i, cfg_key(cfg), vpres["sig"])])
            continue
        if o.get("status") != "ok":
            violations.append(["exception", "build %d (%s) fails on the shared cache but succeeds on an empty one: %s" %
                               (i, cfg_key(cfg), o.get("what", o.get("status")))])
            continue
        if o.get("out") != ref["out"]:
            diff = [j for j in range(N) if o["out"][j] != ref["out"][j]]
            culprit = by_binary.get(o.get("binary"))
            violations.append(["stale-binary", "build %d (%s) computed %s, its own configuration computes %s (components %s differ)%s" %
                               (i, cfg_key(cfg), o.get("out"), ref["out"], diff,
                                "; it ran the binary first built for [%s]" % culprit[0] if culprit else "")])
        b = o.get("binary")
        if b in by_binary and by_binary[b][0] != ek:
            violations.append(["shared-entry", "build %d (%s) resolved to the cache entry of a different configuration [%s]" %
                               (i, ek, by_binary[b][0])])
        ck = cfg_key(cfg)     # "identical builds" = every listed property equal
        if ck in seen:
            h0, b0, i0 = seen[ck]
            if o.get("hash") != h0 or b != b0:
                violations.append(["unstable-key", "build %d repeats the configuration of build %d but resolved to another entry" % (i, i0)])
            elif compiles and not (raced and i > min(raced)):
                # (after a build that overlapped a rewrite of its kernel file the entry of that text may have been dropped
                # on purpose - device::buildKernel discards an entry whose file changed under it - so a later repeat may
                # compile again; it still has to resolve to the same entry and compute its own configuration's result)
                violations.append(["recompiled", "build %d repeats build %d but ran the compiler %d time(s)" % (i, i0, compiles)])
        else:
            seen[ck] = (o.get("hash"), b, i)
        by_binary.setdefault(b, (ek, i))
    distinct_cfgs = len(set(effective_key(c, env) for c in hist))
    out = {
        "violations": violations,
        "log_hash": ps.log_hash(logs),
        "steps": steps, "sim_ns": steps * 10 ** 6,
        "nontrivial": distinct_cfgs >= 2,
        "distinct_key": hashlib.sha256((mode + json.dumps([cfg_key(c) for c in hist]) + json.dumps(env, sort_keys=True) + str(inproc)).encode()).hexdigest()[:16],
        "probes": {"builds": len(hist), "distinct_configurations_in_history": distinct_cfgs,
                   "repeated_configurations": len(hist) - len(set(cfg_key(c) for c in hist)),
                   "builds_overlapping_a_rewrite_of_their_kernel_file": len(raced)},
        "states": [hashlib.sha256(json.dumps(sb.tree_state()).encode()).hexdigest()[:12]],
        "summary": builds,
        "excerpt": logs[:20],
    }
    if violations:
        out["full_log"] = logs
    return out


def _diff_props(text):
    return text


def signature(scn, out):
    """class + the set of properties in which the two colliding configurations differ."""
    v = out["violations"][0]
    hist = scn["history"]
    props = "?"
    if v[0] in ("stale-binary", "shared-entry") and len(hist) >= 2:
        # after minimisation the history has two builds: name the properties that differ
        a, b = hist[0], hist[-1]
        d = [k for k in KEYS if a[k] != b[k]]
        vals = []
        for k in d:
            if k in FLAG_PROPS:
                vals.append("%s:%d>%d" % (k, a[k], b[k]))
            else:
                vals.append(k)
        props = "+".join(vals)
    if scn.get("races") and v[0] in ("stale-binary", "shared-entry", "exception"):
        # (a repaired defect, see KNOWN_FINDINGS.txt: one signature whatever the rest of the configuration is)
        return "%s|kernel-file-rewritten-during-a-build" % PROP
    envs = ",".join(sorted((scn.get("env") or {}).keys()))
    return "%s|%s|differ=%s%s%s" % (PROP, v[0], props, ("|env=" + envs) if envs else "",
                                    ("|several-builds-in-one-process" if scn.get("inproc", 1) > 1 else "") +
                                    ("|kernel-file-rewritten-during-a-build" if scn.get("races") else ""))


def minimise(ex, scn, out, cls):
    def fails(s):
        o = ex.run1(s)
        return cls in [v[0] for v in o.get("violations", [])], o

    hist = list(scn["history"])
    if scn.get("races"):
        ok, _ = fails(dict(scn, races={}))
        if ok:
            scn = dict(scn, races={})
        else:
            # the race indices refer to positions in the history: keep the history as it is
            return scn, out

    def fails_hist(sub):
        if not sub:
            return False
        return fails(dict(scn, history=sub))[0]
    hist = common.ddmin(hist, fails_hist, max_tests=40)
    cur = dict(scn, history=hist)
    if cur.get("inproc", 1) > 1:
        ok, _ = fails(dict(cur, inproc=1))
        if ok:
            cur["inproc"] = 1
    if cur["mode"] != "Serial":
        ok, _ = fails(dict(cur, mode="Serial"))
        if ok:
            cur["mode"] = "Serial"
    # move both configurations towards the base point, property by property
    if len(hist) == 2:
        for k in KEYS:
            if hist[0][k] == hist[1][k] and hist[0][k] != 0:
                cand = [dict(hist[0], **{k: 0}), dict(hist[1], **{k: 0})]
                ok, _ = fails(dict(cur, history=cand))
                if ok:
                    hist = cand
                    cur = dict(cur, history=hist)
    ok, o = fails(cur)
    return (cur, o) if ok else (scn, out)


def main(tier):
    ps.ensure_engine()
    ex = pscheck.Explorer(PROP, tier, "exploration", gen, execute, signature, minimise)
    ex.max_minimise = 10
    ex.report.rule = ("%d systematic one-factor-at-a-time histories first (two builds that differ in one listed property, every alternative value, every supply channel, every fixed environment); then: one run = a seeded history of 6-12 builds (each a fresh simulated process, or 2-3 consecutive builds per process) on one cache directory, drawn from "
                      "families: single-property variations, value swaps between the three flag properties, equal values in two "
                      "properties, repeats; oracle = isolated empty-cache build of the same configuration + distinct configurations "
                      "never share an entry + repeats hit the cache; non-trivial = history holds >= 2 distinct configurations; "
                      "distinct = hash of the configuration sequence") % len(systematic())
    ex.report.assumptions = [
        "environment held fixed within a history; 3 of 7 histories run with all OCCA_*, CXX*, *FLAGS variables unset, the others with one of "
        "OCCA_CXXFLAGS / CXXFLAGS (fallbacks that never apply because the property is always given) or OCCA_LDFLAGS (overrides the property) set",
        "two configurations are different build inputs iff a listed property has a different value (compiler_language only counts when OKL is off)",
        "configurations that do not build on an empty cache are skipped (not a cache-key matter)",
        "the functions property is populated through OCCA_FUNCTION inside the driver (three fixed lambdas)",
    ]
    # the systematic histories first (they do not count against the exploration budget)
    outs = ex.pool.map(pscheck._exec_task, [(execute, sscn) for sscn in systematic()])
    for sscn, o in zip(systematic(), outs):
        ex.absorb(sscn, o)
    ex.explore(common.budget(tier, 60, 900))
    return ex.finish({"property_space": {k: len(v) for k, v in SPACE.items()}})


def replay(path):
    ps.ensure_engine()
    return pscheck.replay_main(PROP, execute, path)
