"""C05 — engine handlesim (see lib/hsmain.py, lib/hcheck.py, lib/hmodel.py)."""
from .. import hsmain


def main(tier):
    return hsmain.main("C05", tier)


def replay(path):
    return hsmain.replay("C05", path)
