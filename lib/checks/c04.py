"""C04 — engine handlesim (see lib/hsmain.py, lib/hcheck.py, lib/hmodel.py)."""
from .. import hsmain


def main(tier):
    return hsmain.main("C04", tier)


def replay(path):
    return hsmain.replay("C04", path)
