"""C09 — concurrent builds of the same kernels all succeed and agree.

2..16 virtual processes build the same 1-3 kernels against one cache directory under a
seeded scheduler (run-to-block with few preemptions biased to in-flight writes, PCT,
uniform, start delays); then one follow-up process must reuse the cache without
compiling."""
import json
import os

from .. import common, pscheck
from .. import procsim as ps
from .. import simcache as sc

PROP = "C09"


def gen(seed, index):
    r = common.rng(seed, "c09")
    n = r.choice([2, 2, 2, 3, 3, 4, 4, 5, 6, 8, 12, 16])
    njobs = r.choice([1, 1, 2, 3])
    jobs = []
    for j in range(njobs):
        jobs.append({"kind": r.choice(["string", "file", "string", "file", "raw"]) if j == 0 else r.choice(["string", "string", "file", "raw"]),
                     "mul": r.randint(2, 9), "add": r.randint(0, 50), "fname": "k%d.okl" % j})
    # at most one file kernel per scenario uses a.h (they share the header)
    seenfile = False
    for jb in jobs:
        if jb["kind"] == "file":
            if seenfile:
                jb["kind"] = "string"
            seenfile = True
    strat = r.choice([["rtb", 5, 8], ["rtb", 15, 8], ["rtb", 15, 30], ["rtb", 40, 4], ["rtb", 8, 60],
                      ["pct", 1, 300], ["pct", 2, 400], ["pct", 3, 600], ["uniform"], ["rtb", 0, 1]])
    delays = [0 if r.random() < 0.5 else r.randint(0, 250) for _ in range(n)]
    scn = {"seed": seed, "mode": r.choice(["Serial", "Serial", "OpenMP"]), "jobs": jobs,
           "pre": r.choice(["cold", "cold", "vendor", "partial"]), "n": n, "delays": delays,
           "strategy": strat, "switches": None,
           "clock_skew_s": [r.choice([0, 0, 0, 1, -1, 3600, 86400]) for _ in range(n)]}
    # crash faults: in a quarter of the scenarios some (never all) of the processes are killed
    # somewhere in their build; the survivors and the follow-up process are judged as usual
    crashes = []
    if r.random() < 0.25:
        victims = r.sample(range(n), r.randint(1, max(1, min(3, n - 1))))
        for v in sorted(victims):
            kind = r.choice(["killbefore", "killafter", "torn"])
            crashes.append({"vp": v, "step": r.choice([r.randint(0, 60), r.randint(0, 320), r.randint(100, 320)]),
                            "kind": kind, "permille": r.choice([0, 1, 250, 500, 900, 999])})
    scn["crashes"] = crashes
    # forked workers: one process builds an unrelated kernel first (so that libocca's per-process state exists), then
    # fork()s the n workers, which inherit that state and build the jobs concurrently
    scn["prefork"] = (not crashes) and r.random() < 0.2
    return scn


def _jobs(scn):
    return [sc.SimpleJob(j["kind"], j["mul"], j["add"], j.get("fname", "k.okl")) for j in scn["jobs"]]


def _spec(scn, jobs):
    return {"mode": scn["mode"], "jobs": [j.spec() for j in jobs]}


def execute(scn, sb):
    sb.reset()
    jobs = _jobs(scn)
    for j in jobs:
        for name, text in j.files().items():
            sb.write_proj(name, text)
    seed = scn["seed"]
    steps = 0
    full_log = []
    pre_compiles = 0
    # pre-phase: sequential, fault free
    if scn["pre"] == "vendor":
        other = sc.SimpleJob("string", 11, 1)
        g = ps.run_group(sb, seed, [ps.VProcSpec({"mode": scn["mode"], "jobs": [other.spec()]})], strategy=("rtb", 0, 1))
        steps += g.gsteps
    elif scn["pre"] == "partial":
        g = ps.run_group(sb, seed, [ps.VProcSpec({"mode": scn["mode"], "jobs": [jobs[0].spec()]})], strategy=("rtb", 0, 1))
        steps += g.gsteps
    base = 1700000000 * 10 ** 9
    prefork = bool(scn.get("prefork"))
    if prefork:
        spec = _spec(scn, jobs)
        spec["prefork"] = scn["n"]
        spec["warm"] = [sc.SimpleJob("string", 13, 2).spec()]
        spec["fork_marker"] = os.path.join(sb.R, ".sim-fork-workers-")
        vps = [ps.VProcSpec(spec)]
    else:
        vps = [ps.VProcSpec(_spec(scn, jobs), delay=scn["delays"][i],
                            clock_base_ns=base + scn["clock_skew_s"][i] * 10 ** 9) for i in range(scn["n"])]
    sw = scn.get("switches")
    if sw is not None:
        sw = {int(k): v for k, v in sw.items()}
    crashes = scn.get("crashes") or []
    g = ps.run_group(sb, seed, vps, strategy=tuple(scn["strategy"]), switches=sw, clock0=steps * 10 ** 6,
                     maxsteps=8000,
                     faults=[(c["vp"], c["step"], c["kind"], c.get("permille", 500)) for c in crashes if c["vp"] < scn["n"]])
    steps += g.gsteps
    violations = []
    if prefork:
        # vproc 0 is the parent (it leaves after forking); workers are vprocs 1..n, their lines carry "child"
        workers = g.vp[1:]
        if len(workers) != scn["n"]:
            raise ps.EngineError("prefork: %d workers expected, the simulator saw %d" % (scn["n"], len(workers)))
        lines = g.outputs[0]
        g.outputs = [[o for o in lines if o.get("child") == c] for c in range(scn["n"])]
        # (which worker index a forked vproc carries is decided by fork order: worker c is vproc 1 + c)
        g.vp = workers
    killed = [i for i in range(scn["n"]) if g.vp[i].get("killed")]
    for i in range(scn["n"]):
        if i in killed:
            continue
        for (cls, text) in sc.judge_outputs(g.outputs[i], g.vp[i], jobs, "process %d" % i):
            violations.append([cls, text])
    inconclusive = g.inconclusive
    if inconclusive:
        violations = []
    # follow-up process: must reuse without compiling
    f = None
    if not inconclusive:
        f = ps.run_group(sb, seed, [ps.VProcSpec(_spec(scn, jobs))], strategy=("rtb", 0, 1), clock0=steps * 10 ** 6)
        steps += f.gsteps
        for (cls, text) in sc.judge_outputs(f.outputs[0], f.vp[0], jobs, "follow-up process"):
            violations.append(["followup-" + cls, text])
        if f.vp[0]["compiles"] != 0 and not any(v[0].startswith("followup-") for v in violations):
            violations.append(["followup-recompiled", "follow-up process ran the compiler %d time(s)" % f.vp[0]["compiles"]])
    sig, ncontended = ps.interleaving_signature(g.log)
    racy = sc.racy_files(g.log)
    out = {
        "violations": violations,
        "log_hash": ps.log_hash(g.log + (f.log if f else [])),
        "steps": steps, "sim_ns": steps * 10 ** 6, "inconclusive": inconclusive,
        "nontrivial": ncontended > 0, "distinct_key": sig,
        "faults": {"process killed while others build": len(killed)} if killed else {},
        "probes": {"runs_with_inflight_conflict": 1 if racy else 0,
                   "runs_with_a_killed_process": 1 if killed else 0,
                   "runs_with_forked_workers": 1 if prefork else 0,
                   "contended_ops": ncontended,
                   "processes_total": scn["n"],
                   "compiles_in_group": sum(v["compiles"] for v in g.vp)},
        "states": [common.hashlib.sha256(json.dumps(sb.tree_state()).encode()).hexdigest()[:12]],
        "summary": {"statuses": [[o.get("status") for o in outs] for outs in g.outputs],
                    "compiles": [v["compiles"] for v in g.vp], "steps": g.gsteps},
        "racy": racy,
        "choices": ps.choices(g.log),
    }
    if violations:
        out["full_log"] = g.log
        out["excerpt"] = g.log[-25:]
    else:
        out["excerpt"] = g.log[:25]
    return out


def signature(scn, out):
    v = out["violations"][0]
    msg = sc.normalise_msg(v[1].split(": ", 1)[-1]) if v[0].endswith("exception") else ""
    return "%s|%s|%s|racy=%s%s" % (PROP, v[0], msg, ",".join(out.get("racy", [])),
                                   ("|killed" if out.get("probes", {}).get("runs_with_a_killed_process") else "") +
                                   ("|forked-workers" if scn.get("prefork") else ""))


def minimise(ex, scn, out, cls):
    """Make the schedule explicit, then greedily drop context switches, jobs and processes
    while the same violation class persists."""
    def fails(s):
        try:
            o = ex.run1(s)
        except Exception:
            # an explicit schedule that is not feasible for the shrunk scenario ("replay diverged"): not a reproduction
            return False, {}
        return cls in [v[0] for v in o.get("violations", [])], o

    # fewer processes / a single job: search nearby seeded scenarios for the same class
    for n2 in (2, 3, 4, 6):
        if n2 >= scn["n"]:
            break
        cands = []
        for t in range(14):
            c = dict(scn, n=n2, delays=scn["delays"][:n2], clock_skew_s=scn["clock_skew_s"][:n2],
                     crashes=[x for x in (scn.get("crashes") or []) if x["vp"] < n2 - 1],
                     seed=common.run_seed(scn["seed"], t, "shrink%d" % n2))
            if t % 2 and len(scn["jobs"]) > 1:
                c["jobs"] = scn["jobs"][:1]
            cands.append(c)
        outs = ex.runN(cands)
        hit = [(c, o) for c, o in zip(cands, outs) if cls in [v[0] for v in o.get("violations", [])]]
        if hit:
            hit.sort(key=lambda co: (len(co[0]["jobs"]), co[1].get("steps", 0)))
            scn, out = hit[0]
            break

    if scn.get("crashes"):
        cand = dict(scn, crashes=[])
        ok, o = fails(cand)
        if ok:
            scn, out = cand, o
    cur = dict(scn)
    ch = out["choices"]
    cur["switches"] = {str(k): v for k, v in ps.switches_from_choices(ch).items()}
    cur["delays"] = [0] * cur["n"]      # the explicit schedule subsumes start delays
    ok, o = fails(cur)
    if not ok:
        # explicit schedule did not reproduce: keep the seeded form (still deterministic)
        return scn, out
    best_o = o
    # single job?
    if len(cur["jobs"]) > 1:
        for j in range(len(cur["jobs"])):
            cand = dict(cur, jobs=[cur["jobs"][j]], switches=None, strategy=scn["strategy"])
            # dropping jobs changes step counts, so fall back to the seeded strategy for this attempt
            ok, o2 = fails(cand)
            if ok:
                cand["switches"] = {str(k): v for k, v in ps.switches_from_choices(o2["choices"]).items()}
                ok3, o3 = fails(cand)
                if ok3:
                    cur, best_o = cand, o3
                    break
    # drop switch points (ddmin over the list of switch decisions)
    items = sorted((int(k), v) for k, v in cur["switches"].items())

    def fails_sw(sub):
        cand = dict(cur, switches={str(k): v for k, v in sub})
        try:
            ok, _ = fails(cand)
        except Exception:
            return False
        return ok
    if len(items) > 1:
        items = common.ddmin(items, fails_sw, max_tests=60)
        cur["switches"] = {str(k): v for k, v in items}
    ok, o = fails(cur)
    if ok:
        best_o = o
    return cur, best_o


def main(tier):
    ps.ensure_engine()
    ex = pscheck.Explorer(PROP, tier, "exploration", gen, execute, signature, minimise)
    ex.report.rule = ("one run = one seeded scenario (2-16 processes x 1-3 string/file kernels x cold/vendor-warm/"
                      "partly-warm cache x Serial/OpenMP x scheduling strategy x start delays x per-process clock skew x "
                      "in a quarter of the runs 1-3 of the processes killed (before / after a call, torn write) while the others build); "
                      "non-trivial = at least one file-system operation on a path that more than one process touched; "
                      "distinct = hash of the sequence (process, normalised operation, result) restricted to such paths")
    ex.report.assumptions = [
        "a process is a real OS process; processes interact only through the cache and project directories",
        "scheduling points are system calls naming a path under the simulated tree; code between two such calls is atomic",
        "the compiler executable is the simcc stub (memoised real g++ output); OMP_NUM_THREADS=1 inside kernels",
    ]
    ex.explore(common.budget(tier, 75, 900))
    return ex.finish()


def replay(path):
    ps.ensure_engine()
    return pscheck.replay_main(PROP, execute, path)
