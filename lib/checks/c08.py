"""C08 — a crash at any point of a kernel build never poisons the cache.

Process A builds under a fault at its k-th file-system system call (kill before the call,
kill after it, or a torn write followed by a kill), including inside the compiler's own
output writes; processes B and C then build the same kernel on the same cache, fault free,
and must succeed with the model's output.  Thorough tier enumerates every k of every
sampled scenario; quick tier samples k with a bias towards in-flight write windows."""
import hashlib
import itertools
import json
import re

from .. import common, pscheck
from .. import procsim as ps
from .. import simcache as sc

PROP = "C08"
MODES = ["Serial", "OpenMP"]
KINDS = ["string", "file", "raw"]
PRES = ["cold", "vendor", "edited"]


def classes():
    out = []
    for m in MODES:
        for k in KINDS:
            for p in PRES:
                if p == "edited" and k != "file":
                    continue
                out.append((m, k, p))
    return out


def base_scn(seed, mode, kind, pre, chunks=3):
    r = common.rng(seed, "c08")
    return {"seed": seed, "mode": mode, "job": {"kind": kind, "mul": r.randint(2, 9), "add": r.randint(0, 50), "fname": "k.okl"},
            "pre": pre, "chunks": chunks, "faults": [], "second_crash": None}


def _job(scn):
    j = scn["job"]
    return sc.SimpleJob(j["kind"], j["mul"], j["add"], j.get("fname", "k.okl"))


def _prepare(scn, sb):
    """Reset the sandbox and bring it to the scenario's pre-state.  Returns (job, steps)."""
    sb.reset()
    job = _job(scn)
    steps = 0
    seed = scn["seed"]
    if scn["pre"] == "edited":
        # an earlier version of the header was built and cached; A rebuilds after the edit
        old = sc.SimpleJob(job.kind, job.mul + 1, job.add, job.fname)
        for name, text in old.files().items():
            sb.write_proj(name, text)
        g = ps.run_group(sb, seed, [ps.VProcSpec({"mode": scn["mode"], "jobs": [old.spec()]})], strategy=("rtb", 0, 1))
        steps += g.gsteps
    elif scn["pre"] == "vendor":
        other = sc.SimpleJob("string", 11, 1)
        g = ps.run_group(sb, seed, [ps.VProcSpec({"mode": scn["mode"], "jobs": [other.spec()]})], strategy=("rtb", 0, 1))
        steps += g.gsteps
    for name, text in job.files().items():
        sb.write_proj(name, text)
    return job, steps


def dry_run(scn, sb):
    """Fault-free build in the scenario's pre-state: the list of A's scheduling points."""
    job, steps = _prepare(scn, sb)
    g = ps.run_group(sb, scn["seed"], [ps.VProcSpec({"mode": scn["mode"], "jobs": [job.spec()]})],
                     strategy=("rtb", 0, 1), clock0=steps * 10 ** 6, chunks=scn["chunks"])
    pts = [(s[2], s[3], s[4]) for s in ps.parse_steps(g.log)]
    bad = sc.judge_outputs(g.outputs[0], g.vp[0], [job], "fault-free process")
    return {"points": pts, "bad": bad}


HASHDIR = re.compile(r"\b[0-9a-f]{16}\b")


def norm_desc(desc):
    d = ps.TEMP_RE.sub("T.", desc)
    d = HASHDIR.sub("H", d)
    return re.sub(r" n=\d+", "", d)


def execute(scn, sb):
    job, steps = _prepare(scn, sb)
    seed = scn["seed"]
    spec = {"mode": scn["mode"], "jobs": [job.spec()]}
    logs = []
    faults_fired = {}
    fault_desc = []
    violations = []
    # phase 1 (and optional second crash): crashing builders
    crashers = [scn["faults"]] + ([scn["second_crash"]] if scn.get("second_crash") else [])
    killed_any = False
    for ci, fl in enumerate(crashers):
        g = ps.run_group(sb, seed + ci, [ps.VProcSpec(spec)], strategy=("rtb", 0, 1),
                         faults=[(0, f["step"], f["kind"], f.get("permille", 500)) for f in fl],
                         clock0=steps * 10 ** 6, chunks=scn["chunks"])
        steps += g.gsteps
        logs.append(g.log)
        if g.vp[0]["killed"]:
            killed_any = True
            for f in fl:
                faults_fired[f["kind"]] = faults_fired.get(f["kind"], 0) + 1
            for line in g.log:
                if "KILLED-BEFORE" in line or " TORN " in line:
                    m = ps.STEP_RE.match(line)
                    if m:
                        fault_desc.append(norm_desc(m.group(5)))
            if not fault_desc or len(fault_desc) <= ci:
                st = ps.parse_steps(g.log)
                if st:
                    fault_desc.append(norm_desc(st[-1][4]))
        else:
            # the fault index lay beyond the end of the build: the process finished normally
            for (cls, text) in sc.judge_outputs(g.outputs[0], g.vp[0], [job], "un-killed process"):
                violations.append(["unkilled-" + cls, text])
    if scn.get("edit_after") and job.kind == "file":
        # the header is edited between the crash and the follow-up builds: whatever the crash left behind
        # was produced from the old header and must not pass for a translation of the new one
        # ("revert": back to the contents that were built and cached before the crashing build's edit)
        job = sc.SimpleJob(job.kind, job.mul + (1 if scn["edit_after"] == "revert" and scn["pre"] == "edited" else 3), job.add, job.fname)
        for name, text in job.files().items():
            sb.write_proj(name, text)
        spec = {"mode": scn["mode"], "jobs": [job.spec()]}
    state_after_crash = hashlib.sha256(json.dumps(sb.tree_state()).encode()).hexdigest()[:12]
    # phase 2, 3: follow-up builders, fault free
    trusted = []
    for name in ("follow-up process B", "follow-up process C"):
        g = ps.run_group(sb, seed + 7, [ps.VProcSpec(spec)], strategy=("rtb", 0, 1), clock0=steps * 10 ** 6,
                         chunks=scn["chunks"])
        steps += g.gsteps
        logs.append(g.log)
        for (cls, text) in sc.judge_outputs(g.outputs[0], g.vp[0], [job], name):
            violations.append(["followup-" + cls, text])
        if name.endswith("B"):
            trusted = sc.trusted_partial_files(logs[0], g.log)
    full = [l for lg in logs for l in lg]
    out = {
        "violations": violations,
        "log_hash": ps.log_hash(full),
        "steps": steps, "sim_ns": steps * 10 ** 6,
        "nontrivial": killed_any,
        "distinct_key": "%s/%s/%s%s/%s" % (scn["mode"], scn["job"]["kind"], scn["pre"], ("+" + str(scn["edit_after"])) if scn.get("edit_after") else "",
                                           ";".join("%s@%d" % (f["kind"], f["step"]) for fl in crashers for f in fl)),
        "faults": faults_fired,
        "probes": {"kill_in_write_window": 1 if any(" 1 " in l and ("KILLED" in l or "TORN" in l) for l in logs[0]) else 0,
                   "kill_inside_compiler_output": 1 if any("binary" in d and d.startswith("write") for d in fault_desc) else 0},
        "states": [state_after_crash],
        "summary": {"fault_at": fault_desc, "trusted_inflight_files": trusted},
        "fault_desc": fault_desc, "trusted": trusted,
    }
    if violations:
        out["full_log"] = full
        out["excerpt"] = logs[0][-12:] + logs[-2][-12:]
    else:
        out["excerpt"] = logs[0][-20:]
    return out


def signature(scn, out):
    v = out["violations"][0]
    msg = sc.normalise_msg(v[1].split(": ", 1)[-1]) if "exception" in v[0] else ""
    kinds = "+".join(f["kind"] for fl in [scn["faults"]] + ([scn["second_crash"]] if scn.get("second_crash") else []) for f in fl)
    return "%s|%s|%s|%s@%s%s" % (PROP, v[0], msg, kinds, " & ".join(out.get("fault_desc", [])).replace(" ", "_"),
                                 "|header-edited-after-crash" if scn.get("edit_after") and scn["job"]["kind"] == "file" else "")


def minimise(ex, scn, out, cls):
    # one fault is already minimal; try to simplify torn -> killafter and drop the second crash
    cur = scn
    if cur.get("edit_after"):
        cand = dict(cur, edit_after=False)
        o = ex.run1(cand)
        if cls in [v[0] for v in o.get("violations", [])]:
            cur, out = cand, o
    if cur.get("second_crash"):
        cand = dict(cur, second_crash=None)
        o = ex.run1(cand)
        if cls in [v[0] for v in o.get("violations", [])]:
            cur, out = cand, o
    return cur, out


def main(tier):
    ps.ensure_engine()
    ex = pscheck.Explorer(PROP, tier, "fault_enumeration", None, execute, signature, minimise)
    seed = ex.seed
    r = common.rng(seed, "c08main")
    cls = classes()
    # dry runs: the scheduling points of a fault-free build for every scenario class
    chunk_opts = [3] if tier == "quick" else [1, 3, 4]
    scns = []
    for (m, k, p) in cls:
        for ch in chunk_opts:
            scns.append(base_scn(common.run_seed(seed, len(scns), "c08"), m, k, p, ch))
    drys = ex.pool.map(pscheck._exec_task, [(dry_run, s) for s in scns])
    for s, d in zip(scns, drys):
        if d["bad"]:
            ex.report.engine_errors.append("fault-free build already fails for %s: %s" % (json.dumps(s), d["bad"]))
    if ex.report.engine_errors:
        # a fault-free build that fails is not a C08 matter; report as a violation of the base
        # assumption rather than silently passing
        return ex.finish()

    def tasks_thorough():
        # enumerate every k x every applicable kind, scenario classes interleaved
        lists = []
        for s, d in zip(scns, drys):
            l = []
            for (k, w, desc) in d["points"]:
                kinds = ["killbefore", "killafter"]
                if desc.startswith("write "):
                    kinds += ["torn"]
                for kind in kinds:
                    f = {"step": k, "kind": kind}
                    if kind == "torn":
                        f["permille"] = r.choice([0, 1, 250, 500, 900, 999])
                    l.append(dict(s, faults=[f]))
                    if s["job"]["kind"] == "file" and kind != "torn":
                        l.append(dict(s, faults=[f], edit_after=True))
                        if s["pre"] == "edited" and kind == "killafter":
                            l.append(dict(s, faults=[f], edit_after="revert"))
            lists.append(l)
        i = 0
        while any(lists):
            for l in lists:
                if l:
                    yield l.pop(0)
            i += 1

    def tasks_quick():
        while True:
            j = r.randrange(len(scns))
            s, d = scns[j], drys[j]
            pts = d["points"]
            inw = [p for p in pts if p[1] or p[2].startswith("write ") or p[2].startswith("rename ")]
            (k, w, desc) = r.choice(inw) if (inw and r.random() < 0.6) else r.choice(pts)
            kinds = ["killbefore", "killafter"] + (["torn", "torn"] if desc.startswith("write ") else [])
            f = {"step": k, "kind": r.choice(kinds)}
            if f["kind"] == "torn":
                f["permille"] = r.choice([0, 1, 250, 500, 900, 999])
            scn = dict(s, faults=[f])
            if s["job"]["kind"] == "file" and r.random() < 0.35:
                scn["edit_after"] = "revert" if (s["pre"] == "edited" and r.random() < 0.5) else True
            if r.random() < 0.15:
                scn["second_crash"] = [{"step": r.randrange(len(pts)), "kind": r.choice(["killbefore", "killafter"])}]
            yield scn

    def tasks_renames():
        # systematic part of the quick tier: a kill right before and right after every publishing rename of the
        # file-kernel classes, with the header edited before the follow-up builds (the windows in which a cache entry is
        # half published are a handful of calls wide: sampling alone hits them too rarely)
        for s, d in zip(scns, drys):
            if s["job"]["kind"] != "file":
                continue
            for (k, w, desc) in d["points"]:
                if desc.startswith("rename "):
                    for kind in ("killbefore", "killafter"):
                        yield dict(s, faults=[{"step": k, "kind": kind}], edit_after=True)

    gen_iter = itertools.chain(tasks_renames(), tasks_quick()) if tier == "quick" else tasks_thorough()
    total_points = sum(len(d["points"]) for d in drys)

    import time
    deadline = time.time() + common.budget(tier, 90, 1500)

    def on_result(task, out):
        ex.absorb(task[1], out)

    n, errors = ex.pool.run(pscheck._exec_task, ((execute, s) for s in itertools.chain(pscheck.corpus(PROP), gen_iter)), deadline, on_result)
    for (t, e) in errors:
        ex.report.engine_errors.append(e)
    exhaustive = False
    if tier != "quick":
        # exhaustive iff the enumeration generator ran dry before the deadline
        try:
            next(gen_iter)
        except StopIteration:
            exhaustive = True
        # spend remaining time on double-crash sampling
        if exhaustive and time.time() < deadline:
            ex.pool.run(pscheck._exec_task, ((execute, s) for s in _double(tasks_quick())), deadline, on_result)
    ex.report.rule = ("one run = (scenario class: mode x string/file kernel x cold / vendor-probe-warm / rebuild-after-header-edit cache"
                      " x compiler output chunking) x (kill point k among the builder's file-system system calls) x (kill before the "
                      "call | kill after it | torn write then kill) x (file kernels: the included header is or is not edited after the crash), "
                      "followed by two fault-free builders on the same cache; "
                      "non-trivial = the fault actually fired (builder killed); distinct = (class, k, kind)")
    ex.report.assumptions = [
        "a crash is SIGKILL of the building process and all its children: completed system calls persist (no power-loss model)",
        "kill points are the builder's system calls on paths under the cache/project tree, including the compiler stub's output writes",
        "the compiler executable is the simcc stub handing out memoised real g++ output in several write() calls",
    ]
    return ex.finish({"exhaustive": exhaustive, "scenario_classes": len(scns), "kill_points_total": total_points,
                      "exhaustive_note": "exhaustive = every kill point x applicable fault kind of every scenario class was executed"})


def _double(it):
    for s in it:
        if not s.get("second_crash"):
            s = dict(s, second_crash=[{"step": s["faults"][0]["step"] // 2, "kind": "killafter"}])
        yield s


def replay(path):
    ps.ensure_engine()
    return pscheck.replay_main(PROP, execute, path)
