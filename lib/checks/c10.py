"""C10 — kernel argument validation accepts exactly the compatible argument lists, and the
decision is the same for a freshly compiled kernel, a kernel loaded from the cache by a second
process, and a kernel loaded after several processes built it concurrently.

What simulation adds here is the cache *history*: the decision vector is evaluated in three
simulated contexts and compared with a small reference lattice (oracle 2) and across contexts
(oracle 1)."""
import hashlib
import json
import os

from .. import common, pscheck
from .. import procsim as ps
from .. import simcache as sc

PROP = "C10"
VECTYPES = os.path.join(ps.ENG, "vectypes.h")

SCALARS = ["bool", "char", "short", "int", "long", "float", "double"]
VECTORS = {"float2": ["float"] * 2, "float4": ["float"] * 4, "int2": ["int"] * 2, "int4": ["int"] * 4, "double2": ["double"] * 2}
MEM_DTYPES = SCALARS + sorted(VECTORS) + ["byte"]


def flat(t):
    if isinstance(t, dict):          # a parameter: fixed arrays flatten to extent x element list
        return flat(t["type"]) * t.get("arr", 1)
    return VECTORS.get(t, [t])


def castable(frm, to):
    if frm == "byte" or to == "byte":
        return True
    a, b = flat(frm), flat(to)
    if not isinstance(to, dict) and to == "byte":
        return True
    short, long_ = (a, b) if len(a) <= len(b) else (b, a)
    if len(long_) % len(short):
        return False
    # the longer one must be a repetition of its first len(short) entries, which must equal the shorter
    for i, x in enumerate(long_):
        if x != long_[i % len(short)]:
            return False
    return short == long_[:len(short)]


def gen_signature(r):
    n = r.choice([0, 1, 1, 2, 2, 3, 3, 4])
    params = []
    for i in range(n):
        x = r.random()
        if x < 0.2:
            # fixed-size array parameter: passed as memory, element list = extent x element type
            params.append({"type": r.choice(["float", "int", "double"]), "ptr": True, "const": False, "arr": r.randint(2, 10)})
            continue
        ptr = x < 0.68
        t = r.choice(SCALARS + (sorted(VECTORS) if ptr else []))
        p = {"type": t, "ptr": ptr, "const": r.random() < 0.4}
        if t in ("float", "int", "double") and r.random() < 0.3:
            p["tname"] = "my_%s_t" % t          # spelled through a typedef in the kernel source
        params.append(p)
    return params


def kernel_source(params, variant):
    ps_ = []
    for i, p in enumerate(params):
        if p.get("arr"):
            s = "%s p%d[%d]" % (p["type"], i, p["arr"])
        else:
            s = ("const " if p["const"] else "") + p.get("tname", p["type"]) + (" *" if p["ptr"] else " ") + "p%d" % i
        ps_.append(s)
    tds = "".join("typedef %s %s;\n" % (p["type"], p["tname"]) for p in {q.get("tname"): q for q in params if q.get("tname")}.values())
    return (tds + "@kernel void k(%s) {\n  for (int i = 0; i < 1; ++i; @outer) {\n    for (int j = 0; j < 1; ++j; @inner) {\n"
            "      int x = %d; x += 1;\n    }\n  }\n}\n" % (", ".join(ps_), variant))


def gen_tuple(r, params):
    """An argument list: mostly compatible, with one deliberate deviation."""
    args = []
    for p in params:
        if p["ptr"]:
            x = r.random()
            if p.get("arr") and x < 0.75:
                args.append({"t": "mem", "dtype": r.choice([p["type"], p["type"]] + [v for v in sorted(VECTORS) if VECTORS[v][0] == p["type"]] + ["byte", "int2"])})
            elif x < 0.45:
                args.append({"t": "mem", "dtype": p["type"]})
            elif x < 0.75:
                args.append({"t": "mem", "dtype": r.choice(MEM_DTYPES)})
            elif x < 0.85:
                args.append({"t": "null"})
            else:
                args.append({"t": r.choice(["int", "float", "double", "char"])})
        else:
            x = r.random()
            if x < 0.55:
                args.append({"t": p["type"]})
            elif x < 0.8:
                args.append({"t": r.choice(SCALARS)})
            elif x < 0.92:
                args.append({"t": "mem", "dtype": r.choice(MEM_DTYPES)})
            else:
                args.append({"t": "null"})
    y = r.random()
    if y < 0.1 and args:
        args.pop()
    elif y < 0.2:
        args.append(r.choice([{"t": "int"}, {"t": "mem", "dtype": "float"}, {"t": "null"}]))
    return args


def model_decision(params, args):
    if len(args) != len(params):
        return "R"
    for p, a in zip(params, args):
        is_ptr_arg = a["t"] in ("mem", "null")
        if is_ptr_arg != p["ptr"]:
            return "R"
        if a["t"] == "mem" and not castable(a["dtype"], p):
            return "R"
    return "A"


def gen(seed, index):
    r = common.rng(seed, "c10")
    params = gen_signature(r)
    tuples = [gen_tuple(r, params) for _ in range(r.randint(8, 16))]
    # always include the exactly-matching list
    tuples.append([({"t": "mem", "dtype": p["type"]} if p["ptr"] else {"t": p["type"]}) for p in params])
    return {"seed": seed, "mode": r.choice(["Serial", "Serial", "OpenMP"]), "params": params, "tuples": tuples,
            "variant": r.randint(0, 999), "nconc": r.choice([2, 3, 4]), "strategy": r.choice([["rtb", 15, 8], ["rtb", 40, 4], ["pct", 2, 400]])}


def execute(scn, sb):
    seed = scn["seed"]
    params, tuples = scn["params"], scn["tuples"]
    expected = "".join(model_decision(params, t) for t in tuples)
    job = {"kind": "string", "kernel": "k", "source": kernel_source(params, scn["variant"]), "run": False,
           "props": {"compiler": sc.simcc(), "compiler_flags": "-O1 -include " + VECTYPES}, "argtests": tuples}
    spec = {"mode": scn["mode"], "jobs": [job]}
    violations = []
    logs = []
    steps = 0
    contexts = {}

    def record(name, g, i):
        o = g.outputs[i][0] if g.outputs[i] else {"status": "none"}
        if g.vp[i]["sig"]:
            violations.append(["crash", "%s died with signal %d" % (name, g.vp[i]["sig"])])
            return
        if o.get("status") != "ok":
            # build problems are C08/C09 matters; here only note them
            contexts[name] = None
            return
        contexts[name] = o.get("decisions")

    sb.reset()
    g = ps.run_group(sb, seed, [ps.VProcSpec(spec)], strategy=("rtb", 0, 1))
    steps += g.gsteps; logs += g.log
    record("fresh", g, 0)
    fresh_compiles = g.vp[0]["compiles"]
    g = ps.run_group(sb, seed, [ps.VProcSpec(spec)], strategy=("rtb", 0, 1), clock0=steps * 10 ** 6)
    steps += g.gsteps; logs += g.log
    record("cached", g, 0)
    cached_compiles = g.vp[0]["compiles"]
    sb.reset()
    g = ps.run_group(sb, seed, [ps.VProcSpec(spec) for _ in range(scn["nconc"])], strategy=tuple(scn["strategy"]))
    steps += g.gsteps; logs += g.log
    for i in range(scn["nconc"]):
        record("concurrent-%d" % i, g, i)
    g = ps.run_group(sb, seed, [ps.VProcSpec(spec)], strategy=("rtb", 0, 1), clock0=steps * 10 ** 6)
    steps += g.gsteps; logs += g.log
    record("cached-after-concurrency", g, 0)

    for name, d in sorted(contexts.items()):
        if d is None:
            continue
        if d != expected:
            bad = [i for i in range(len(tuples)) if i >= len(d) or d[i] != expected[i]]
            i = bad[0]
            violations.append(["wrong-decision", "%s: argument list %s for k(%s) was %s, the rule says %s" %
                               (name, json.dumps(tuples[i]), _sig(params), _word(d[i] if i < len(d) else "?"), _word(expected[i]))])
    ds = set(d for d in contexts.values() if d is not None)
    if len(ds) > 1 and not violations:
        violations.append(["context-dependent", "decisions differ between contexts: %s" % json.dumps(contexts)])
    ncached = sum(1 for n, d in contexts.items() if d is not None and n.startswith("cached"))
    out = {
        "violations": violations,
        "log_hash": ps.log_hash(logs),
        "steps": steps, "sim_ns": steps * 10 ** 6,
        "nontrivial": ncached >= 1 and ("R" in expected and "A" in expected),
        "distinct_key": hashlib.sha256(json.dumps([params, tuples], sort_keys=True).encode()).hexdigest()[:16],
        "probes": {"decisions_checked": sum(len(d) for d in contexts.values() if d), "contexts_evaluated": len([d for d in contexts.values() if d]),
                   "cache_hit_contexts": ncached, "expected_accepts": expected.count("A"), "expected_rejects": expected.count("R"),
                   "cached_context_recompiled": 1 if cached_compiles else 0},
        "states": [],
        "summary": {"signature": _sig(params), "expected": expected, "contexts": contexts},
        "excerpt": logs[:10],
    }
    if violations:
        out["full_log"] = logs[-300:]
    return out


def _sig(params):
    return ", ".join(("%s[%d]" % (p["type"], p["arr"])) if p.get("arr") else
                     (("const " if p["const"] else "") + p["type"] + ("*" if p["ptr"] else "")) for p in params)


def _word(c):
    return {"A": "accepted", "R": "rejected"}.get(c, c)


def signature(scn, out):
    v = out["violations"][0]
    detail = ""
    if v[0] == "wrong-decision":
        # which rule and which direction
        ctx = v[1].split(":", 1)[0]
        ctx = "cached" if ctx.startswith("cached") else ("fresh" if ctx == "fresh" else "concurrent")
        want = "should-reject" if v[1].endswith("rejected") else "should-accept"
        detail = "%s|%s" % (ctx, want)
    return "%s|%s|%s" % (PROP, v[0], detail)


def minimise(ex, scn, out, cls):
    def fails(s):
        o = ex.run1(s)
        return cls in [v[0] for v in o.get("violations", [])], o
    tuples = list(scn["tuples"])

    def fails_t(sub):
        return bool(sub) and fails(dict(scn, tuples=sub))[0]
    tuples = common.ddmin(tuples, fails_t, max_tests=30)
    cur = dict(scn, tuples=tuples)
    ok, o = fails(cur)
    return (cur, o) if ok else (scn, out)


def main(tier):
    ps.ensure_engine()
    ex = pscheck.Explorer(PROP, tier, "exploration", gen, execute, signature, minimise)
    ex.report.rule = ("one run = one seeded kernel signature (1-4 parameters over bool/char/short/int/long/float/double and "
                      "float2/float4/int2/int4/double2 pointers, const or not) x 9-17 argument lists (matching, wrong dtype, byte, "
                      "null, scalar-for-pointer, memory-for-scalar, too few/many), evaluated in a freshly compiling process, in a "
                      "second process that loads from the cache, in 2-4 concurrently building processes and in a process loading "
                      "after that; non-trivial = a cache-hit context was evaluated and the expected vector mixes accepts and "
                      "rejects; distinct = hash of (signature, argument lists)")
    ex.report.assumptions = [
        "compatibility rule (from the statement): counts equal; pointer parameter <=> memory or occa::null; element types castable "
        "iff one is byte or the flattened primitive lists agree with the shorter repeating in the longer",
        "scalar arguments of any builtin type are compatible with any scalar parameter (the statement lists no scalar-type rule)",
        "typedef'd parameter types count as the type they name; kernel bodies never touch their arguments",
    ]
    ex.explore(common.budget(tier, 75, 900))
    return ex.finish()


def replay(path):
    ps.ensure_engine()
    return pscheck.replay_main(PROP, execute, path)
