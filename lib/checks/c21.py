"""C21 — OpenMP kernels are deterministic for every thread count and schedule.

Engines oklgen + simrt: generated OKL kernels go through the real serial and openmp translators and
the real g++ (the OpenMP object is compiled with -fopenmp -fsanitize=thread but linked against the
simulated OpenMP runtime instead of libgomp/libtsan).  Team size, static / runtime / dynamic
schedules with seeded chunk assignment, the first runner and scripted preemptions at conflicting
(atomic / critical) accesses are the schedule space.  Oracles: outputs bit-equal to the Serial
translation's, no unordered conflicting access pair (lockset race detection over the recorded
trace), heap/guard-zone checker silent."""
import json
import time

from .. import common
from .. import kcheck

PROP = "C21"


def _task(t):
    seed, nruns = t
    if isinstance(seed, dict):        # a corpus entry: one kernel with one configuration
        v, out = kcheck.replay_one(seed["kernel"], seed["cfg"])
        return {"seed": 0, "features": seed["kernel"].get("features", []), "runs": 1, "rejected": None, "fired": out.get("fired", 0),
                "steps": sum(s[2] for s in out.get("steps", [])), "distinct": [], "races_checked": 1, "conflicts": 0,
                "teams": [seed["cfg"]["team"]], "variants": [seed["cfg"]["variant"]], "chunks": out.get("chunks", 0), "sample": None,
                "violations": ([{"class": v[0][0], "text": v[0][1], "kernel": seed["kernel"], "cfg": seed["cfg"]}] if v else [])}
    return kcheck.explore_kernel(seed, nruns)


def _corpus():
    import os
    d = os.path.join(common.VERIF, "corpus", PROP)
    out = []
    try:
        names = sorted(os.listdir(d))
    except OSError:
        return out
    for n in names:
        if n.endswith(".json"):
            try:
                with open(os.path.join(d, n)) as f:
                    rp = json.load(f)
                out.append({"kernel": rp["kernel"], "cfg": rp["cfg"]})
            except (OSError, ValueError, KeyError):
                pass
    return out


def _replay_task(t):
    kernel, cfg = t
    a, oa = kcheck.replay_one(kernel, cfg)
    b, ob = kcheck.replay_one(kernel, cfg)
    return kernel, cfg, a, b, oa.get("steps"), ob.get("steps")


def signature(cls, kernel, text):
    if "atomic-mixed-forms" in kernel.get("features", []) and cls in ("data-race", "output-mismatch"):
        return "%s|mixed-atomic-forms" % PROP
    feats = ",".join(kernel.get("features", []))
    detail = ""
    if cls == "output-mismatch":
        detail = text.split("[")[0]
    return "%s|%s|%s|features=%s" % (PROP, cls, detail, feats)


def main(tier):
    kcheck.ensure_engine()
    seed = common.base_seed()
    rep = common.Report(PROP, tier, "exploration", seed)
    pool = common.Pool()
    deadline = time.time() + common.budget(tier, 60, 900)
    nruns = 8 if tier == "quick" else 64
    agg = {"kernels": 0, "runs": 0, "steps": 0, "fired": 0, "rejected": 0, "conflicts": 0, "races_checked": 0, "chunks": 0}
    feats, teams, variants, raw = {}, {}, {}, {}
    pending = []
    rejected_samples = []

    def tasks():
        for c in _corpus():
            yield (c, nruns)
        i = 0
        while True:
            yield (common.run_seed(seed, i, PROP), nruns)
            i += 1

    def on_result(task, r):
        agg["kernels"] += 1
        for k in ("runs", "steps", "fired", "conflicts", "races_checked", "chunks"):
            agg[k] += r[k]
        rep.evaluations += r["runs"]
        if r["rejected"]:
            agg["rejected"] += 1
            if len(rejected_samples) < 3:
                rejected_samples.append(r["rejected"][:300])
            return
        for f in r["features"]:
            feats[f] = feats.get(f, 0) + 1
        for t in r["teams"]:
            teams[t] = teams.get(t, 0) + 1
        for v in r["variants"]:
            variants[v] = variants.get(v, 0) + 1
        for d in r["distinct"]:
            rep.nontrivial.add(d)
        if len(rep.samples) < 3 and r.get("sample"):
            rep.samples.append(r["sample"])
        for v in r["violations"]:
            if v["class"] == "ENGINE":
                rep.engine_errors.append(v["text"])
                continue
            sig = signature(v["class"], v["kernel"], v["text"])
            raw[sig] = raw.get(sig, 0) + 1
            if sig in rep.known:
                rep.known_seen[sig] = rep.known[sig]      # a recorded finding: no need to replay it again
            elif raw[sig] <= 2 and len(pending) < 8:
                pending.append((v["kernel"], v["cfg"]))

    n, errors = pool.run(_task, tasks(), deadline, on_result)
    for (t, e) in errors:
        rep.engine_errors.append(e)
    for (kernel, cfg, a, b, sa, sb) in (pool.map(_replay_task, pending) if pending else []):
        if not a or not b or a[0][0] != b[0][0] or sa != sb:
            rep.engine_errors.append("violation did not replay deterministically: %s %s" % (a, json.dumps(cfg)))
            continue
        cls = a[0][0]
        sig = signature(cls, kernel, a[0][1])
        replay = {"property": PROP, "engine": "simrt+oklgen", "class": cls, "signature": sig, "kernel": kernel, "cfg": cfg, "violation": a[0][1]}
        rep.add_violation(sig, replay, "%s   [config %s]\n%s" % (a[0][1], json.dumps(cfg), kernel["source"]))
    pool.close()
    wall = max(time.time() - rep.t0, 1e-9)
    rep.rule = ("one run = one generated OKL kernel (seeded: 1-2 @outer nests, 1-2 @outer depth, 1-3 sibling @inner phases with @barrier, "
                "@shared tiles, @exclusive values and pointers, @atomic += / -= / ++ / float / block / through pointers, @tile, branches, helper "
                "functions, n in {0..32}) x one schedule configuration (team size 1-16, static / runtime / dynamic chunking with seeded chunk "
                "sizes, first runner, optional scripted preemptions at conflicting accesses); non-trivial = team size > 1 or a scripted "
                "switch fired; distinct = (kernel hash, variant, team, chunk seed, first runner / switch list)")
    rep.cov.update({
        "kernels_generated": agg["kernels"], "kernels_rejected_by_a_translator": agg["rejected"], "rejected_samples": rejected_samples,
        "schedule_runs": agg["runs"], "scheduling_points_executed": agg["steps"], "scripted_switches_fired": agg["fired"],
        "traces_checked_for_races": agg["races_checked"], "conflicting_addresses_seen": agg["conflicts"], "chunks_handed_out": agg["chunks"],
        "kernels_by_feature": feats, "runs_by_team_size": teams, "runs_by_schedule_variant": variants, "raw_violations_by_class": raw,
        "seeds_per_hour": round(agg["kernels"] / wall * 3600.0, 1),
        "faults_injected": {"preemption at atomic / critical / memory access": agg["fired"], "seeded chunk-to-thread assignment": agg["chunks"]},
        "components": {"real": ["occa serial and openmp translators (libocca built from /repo's working tree)", "g++ lowering of the OpenMP pragmas",
                                 "the compiled kernels"],
                       "stub": ["libgomp replaced by the simulated OpenMP runtime (teams, chunking, critical/atomic locks)",
                                 "TSan runtime replaced by simrt (scheduler, trace, heap checker)"]},
    })
    rep.assumptions = [
        "generated kernels have independent @outer/@inner iterations by construction; @atomic updates are commutative (integer adds, float adds of small integers)",
        "race detection is lockset based over one traced execution per configuration (fork/join, critical sections and atomics are the only synchronisation in translated OKL)",
        "the schedule(runtime/dynamic) variants are produced by editing the emitted pragma text; the translator never emits a schedule clause itself",
    ]
    return rep.finish()


def replay(path):
    kcheck.ensure_engine()
    with open(path) as f:
        rp = json.load(f)
    v, out = kcheck.replay_one(rp["kernel"], rp["cfg"])
    print("replay: %s" % (v,))
    if v and v[0][0] == rp["class"]:
        print("VIOLATION property=%s replay=%s" % (PROP, path))
        return 1
    return 0
