"""C07 — editing an included header always invalidates stale cached kernels.

A seeded history of header edits (content changes from a small alphabet so that equal
contents, swaps and reverts are frequent; adding/removing a nested #include; clock jumps)
is interleaved with builds sharing one cache (a fresh simulated process per build, or several builds per process; an
editor process may rewrite a header while a build runs).  Every
build must exit cleanly and print the vector a textual resolution of the *current* files
gives."""
import hashlib
import json
import os

from .. import common, pscheck
from .. import procsim as ps
from .. import simcache as sc

PROP = "C07"
N = 4
MAXSTEPS = 200000

BODIES = [
    [],
    [("MA", 2)],
    [("MA", 3), ("MB", 1)],
    [("MB", 2), ("MC", 1)],
    [("MC", 2)],
    [("MA", 4), ("MC", 3)],
]
HEADERS = ["a.h", "b.h", "c.h"]

KERNEL_TAIL = ("#ifndef MA\n#define MA 1\n#endif\n#ifndef MB\n#define MB 0\n#endif\n#ifndef MC\n#define MC 0\n#endif\n"
               "@kernel void k(const int n, int *out) {\n"
               "  for (int i = 0; i < n; ++i; @outer) {\n"
               "    for (int j = 0; j < 1; ++j; @inner) {\n"
               "      out[i] = i * MA + MB * 100 + MC * 10000;\n"
               "    }\n  }\n}\n")
FILE_KERNEL = '#include "a.h"\n#include "b.h"\n' + KERNEL_TAIL

# non-OKL variant (raw C++ handed to the compiler; headers are read by the compiler itself)
RAW_KERNEL = ('#include "%(proj)s/a.h"\n#include "%(proj)s/b.h"\n'
              "#ifndef MA\n#define MA 1\n#endif\n#ifndef MB\n#define MB 0\n#endif\n#ifndef MC\n#define MC 0\n#endif\n"
              'extern "C" void k(const int &n, int *out) {\n'
              "  for (int i = 0; i < n; ++i) out[i] = i * MA + MB * 100 + MC * 10000;\n}\n")


def render(body, inc_c, angle=False):
    s = ""
    if inc_c:
        s += '#include <c.h>\n' if angle else '#include "c.h"\n'
    s += "// body %d\n" % body
    for (m, v) in BODIES[body]:
        s += "#ifndef %s\n#define %s %d\n#endif\n" % (m, m, v)
    return s


def model(state):
    """state: {header: [body, inc_c]}.  First definition wins (every define is guarded)."""
    env = {}

    def visit(h, depth=0):
        body, inc = state[h]
        if inc and h != "c.h" and depth < 4:
            visit("c.h", depth + 1)
        for (m, v) in BODIES[body]:
            env.setdefault(m, v)
    visit("a.h")
    visit("b.h")
    ma, mb, mc = env.get("MA", 1), env.get("MB", 0), env.get("MC", 0)
    return [i * ma + mb * 100 + mc * 10000 for i in range(N)]


def gen(seed, index):
    r = common.rng(seed, "c07")
    state = {"a.h": [r.randrange(len(BODIES)), r.random() < 0.3], "b.h": [r.randrange(len(BODIES)), r.random() < 0.2],
             "c.h": [r.randrange(len(BODIES)), False]}
    ops = [["build", r.choice(["file", "file", "string"])]]
    nops = r.randint(4, 12)
    raw = r.random() < 0.12
    for _ in range(nops):
        x = r.random()
        if x < 0.40:
            ops.append(["set", r.choice(HEADERS), r.randrange(len(BODIES))])
        elif x < 0.50:
            # make two headers equal / swap them: the coincidences XOR-style keys are blind to
            a, b = r.sample(HEADERS, 2)
            ops.append([r.choice(["copy", "swap"]), a, b])
        elif x < 0.60:
            ops.append(["toggle_include", r.choice(["a.h", "b.h"])])
        elif x < 0.68:
            ops.append(["revert"])
        elif x < 0.73:
            ops.append(["clock_jump", r.choice([-86400, -3600, 3600, 86400 * 30])])
        elif x < 0.76:
            # a build that asks for a kernel name the source does not define: it must fail, and must not leave anything
            # behind that exempts the entry from the dependency check
            ops.append(["build_wrong_name", r.choice(["file", "file", "string"])])
            continue
        elif x < 0.82:
            # an editor process rewrites a header WHILE a build is running (seeded interleaving of the two processes);
            # that build may see the old or the new contents, the next one must see the new
            ops.append(["edit_during_build", r.choice(HEADERS), r.randrange(len(BODIES)), r.choice(["file", "file", "string"]),
                        r.randint(1, 10 ** 6)])
            ops.append(["build", r.choice(["file", "file", "string"])])
            continue
        else:
            ops.append(["build", r.choice(["file", "file", "string"])])
        if ops[-1][0] != "build" and r.random() < 0.6:
            ops.append(["build", r.choice(["file", "file", "string"])])
    ops.append(["build", "file"])
    scn = {"seed": seed, "mode": r.choice(["Serial", "Serial", "OpenMP"]), "init": state, "ops": ops, "raw": raw,
           "angle": 0 if raw else r.choice([0, 0, 0, 1, 2])}
    # builds per simulated process: 1 = every build in a fresh process; k > 1 = up to k consecutive builds (and the
    # header edits between them, made by the process itself) share one process, device and whatever it remembers
    scn["inproc"] = r.choice([1, 1, 1, 2, 3, 4])
    return scn


def systematic():
    """Short histories run before the seeded exploration: every way a header reaches the kernel (quoted, nested, angle
    through include paths) x file / string kernel x fresh process per build / one process for all builds: build, edit,
    build, revert, build, then an include-graph change."""
    out = []
    for angle in (0, 1, 2):
        for kind in ("file", "string"):
            for inproc in (1, 3):
                for hdr in ("a.h", "c.h"):
                    init = {"a.h": [1, hdr == "c.h"], "b.h": [2, False], "c.h": [3, False]}
                    ops = [["build", kind], ["set", hdr, 5], ["build", kind], ["revert"], ["build", kind],
                           ["toggle_include", "b.h"], ["build", kind], ["set", "c.h", 4], ["build", kind]]
                    if hdr == "a.h" and inproc == 1:
                        ops = [["build_wrong_name", kind]] + ops
                    out.append({"seed": 2000 + len(out), "mode": "Serial" if len(out) % 3 else "OpenMP", "init": init, "ops": ops,
                                "raw": False, "angle": angle, "inproc": inproc})
    return out


def job_spec(kind, sb, raw):
    props = {"compiler": sc.simcc()}
    if raw:
        props["okl"] = {"enabled": False}
        return {"kind": "string", "kernel": "k", "n": N, "source": RAW_KERNEL % {"proj": sb.proj}, "props": props}
    if kind == "file":
        return {"kind": "file", "kernel": "k", "n": N, "file": "k.okl", "props": props}
    props["includes"] = [os.path.join(sb.proj, "a.h"), os.path.join(sb.proj, "b.h")]
    return {"kind": "string", "kernel": "k", "n": N, "source": KERNEL_TAIL, "props": props}


def execute(scn, sb):
    sb.reset()
    seed, mode = scn["seed"], scn["mode"]
    state = {h: list(v) for h, v in scn["init"].items()}
    angle = scn.get("angle", 0)
    history = [json.dumps(state, sort_keys=True)]

    def flush():
        for h in HEADERS:
            sb.write_proj(h, render(state[h][0], state[h][1], angle=(angle == 2)))
    flush()
    # angle 1: the kernel pulls b.h in with <...> through okl/include_paths; angle 2: a.h/b.h pull c.h in with <...>
    sb.write_proj("k.okl", FILE_KERNEL.replace('#include "b.h"', '#include <b.h>') if angle == 1 else FILE_KERNEL)
    steps = 0
    clock_off = [0]
    violations = []
    logs = []
    builds = []
    nbuilds = 0
    edits_between = 0
    probes = {"builds": 0, "builds_after_edit": 0, "equal_contents_states": 0, "reverts": 0, "include_graph_changes": 0,
              "cache_hits": 0}
    inproc = scn.get("inproc", 1)
    pending = []
    acc = {"steps": 0}

    def run_pending():
        """Run the pending builds in one simulated process; judge them in order.  False = stop the history."""
        jobs = list(pending)
        del pending[:]
        g = ps.run_group(sb, seed, [ps.VProcSpec({"mode": mode, "jobs": [j[0] for j in jobs]})], strategy=("rtb", 0, 1),
                         clock0=max(0, acc["steps"] * 10 ** 6 + clock_off[0] + 10 ** 15), maxsteps=MAXSTEPS, timeout=300)
        acc["steps"] += g.gsteps
        logs.extend(g.log)
        if len(jobs) == 1 and g.vp[0]["compiles"] == 0:
            probes["cache_hits"] += 1
        by = {o.get("job"): o for o in g.outputs[0]}
        for idx, (spec, op, st, exp, tag) in enumerate(jobs):
            o = by.get(idx, by.get(-1, {"status": "none"}))
            builds.append({"op": op, "state": st, "status": o.get("status"), "out": o.get("out"), "expected": exp})
            if g.inconclusive:
                # a fault-free sequential build needs a few hundred file-system calls; one that is still
                # going after MAXSTEPS of them is not making progress (bounded-liveness oracle)
                violations.append(["nonterminating-build", "%s still running after %d file-system calls (a build needs < 400)" % (tag, MAXSTEPS)])
                return False
            if g.vp[0]["sig"] and idx not in by:
                violations.append(["crash", "%s died with signal %d" % (tag, g.vp[0]["sig"])])
                return False
            if o.get("status") != "ok":
                violations.append(["exception", "%s: %s" % (tag, o.get("what", o.get("status")))])
                return False
            if o.get("out") != exp:
                violations.append(["stale-output", "%s computed %s, the current files give %s" % (tag, o.get("out"), exp)])
                return False
        return True

    for op in scn["ops"]:
        if op[0] == "set":
            state[op[1]][0] = op[2]
        elif op[0] == "copy":
            state[op[2]][0] = state[op[1]][0]
        elif op[0] == "swap":
            state[op[1]][0], state[op[2]][0] = state[op[2]][0], state[op[1]][0]
        elif op[0] == "toggle_include":
            state[op[1]][1] = not state[op[1]][1]
            probes["include_graph_changes"] += 1
        elif op[0] == "revert":
            if len(history) >= 3:
                state = json.loads(history[-3])
                probes["reverts"] += 1
        elif op[0] == "clock_jump":
            if pending and not run_pending():      # the clock only jumps between processes
                break
            clock_off[0] += op[1] * 10 ** 9
            continue
        elif op[0] == "build_wrong_name":
            if pending and not run_pending():
                break
            if scn.get("raw"):
                continue
            spec = job_spec(op[1], sb, False)
            spec["kernel"] = "k_does_not_exist"
            spec["run"] = False
            if angle:
                spec["props"]["okl"] = {"include_paths": [sb.proj]}
            g = ps.run_group(sb, seed, [ps.VProcSpec({"mode": mode, "jobs": [spec]})], strategy=("rtb", 0, 1),
                             clock0=max(0, acc["steps"] * 10 ** 6 + clock_off[0] + 10 ** 15), maxsteps=MAXSTEPS, timeout=300)
            acc["steps"] += g.gsteps
            logs.extend(g.log)
            probes["builds_asking_for_a_missing_kernel_name"] = probes.get("builds_asking_for_a_missing_kernel_name", 0) + 1
            o = g.outputs[0][0] if g.outputs[0] else {"status": "none"}
            if g.vp[0]["sig"]:
                violations.append(["crash", "build asking for a kernel name the source does not define died with signal %d" % g.vp[0]["sig"]])
                break
            if o.get("status") == "ok":
                violations.append(["missing-exception", "a build asking for a kernel name the source does not define succeeded"])
                break
            continue
        elif op[0] == "edit_during_build":
            if pending and not run_pending():
                break
            if scn.get("raw"):
                continue
            hdr, body, kind, iseed = op[1], op[2], op[3], op[4]
            old_state = {h: list(state[h]) for h in HEADERS}
            state[hdr][0] = body
            history.append(json.dumps(state, sort_keys=True))
            spec = job_spec(kind, sb, False)
            if angle:
                spec["props"]["okl"] = {"include_paths": [sb.proj]}
            editor = {"kind": "none", "kernel": "k", "prewrite": {os.path.join(sb.proj, hdr): render(state[hdr][0], state[hdr][1], angle=(angle == 2))}}
            g = ps.run_group(sb, iseed, [ps.VProcSpec({"mode": mode, "jobs": [spec]}),
                                         ps.VProcSpec({"mode": mode, "jobs": [editor]}, delay=iseed % 170)],
                             strategy=("uniform",), clock0=max(0, acc["steps"] * 10 ** 6 + clock_off[0] + 10 ** 15), maxsteps=MAXSTEPS, timeout=300)
            acc["steps"] += g.gsteps
            logs.extend(g.log)
            probes["builds_overlapping_an_edit"] = probes.get("builds_overlapping_an_edit", 0) + 1
            edits_between += 1
            o = g.outputs[0][0] if g.outputs[0] else {"status": "none"}
            tag = "build overlapping the edit of %s" % hdr
            if g.vp[0]["sig"]:
                violations.append(["crash", "%s died with signal %d" % (tag, g.vp[0]["sig"])])
                break
            # (the overlapping build itself is not judged: it may have read the header before, after or in the middle of
            # the rewrite - even a compile error is legitimate; what counts is the next build, which follows in the history)
            continue
        if op[0] != "build":
            history.append(json.dumps(state, sort_keys=True))
            if not pending:
                flush()          # (with builds pending, the process itself writes the headers: prewrite)
            edits_between += 1
            continue
        if len(set(state[h][0] for h in HEADERS)) < 3:
            probes["equal_contents_states"] += 1
        spec = job_spec(op[1], sb, scn.get("raw"))
        if angle and not scn.get("raw"):
            spec["props"]["okl"] = {"include_paths": [sb.proj]}
        if inproc > 1:
            # the process rewrites the headers itself right before this build
            spec["prewrite"] = {os.path.join(sb.proj, h): render(state[h][0], state[h][1], angle=(angle == 2)) for h in HEADERS}
        nbuilds += 1
        probes["builds"] += 1
        if edits_between:
            probes["builds_after_edit"] += 1
        edits_between = 0
        tag = "build #%d (%s%s%s) with a.h=%s b.h=%s c.h=%s" % (nbuilds, op[1], ", okl off" if scn.get("raw") else "",
                                                               ", build %d of its process" % (len(pending) + 1) if inproc > 1 else "",
                                                               state["a.h"], state["b.h"], state["c.h"])
        pending.append((spec, op, {h: list(state[h]) for h in HEADERS}, model(state), tag))
        if len(pending) >= inproc:
            if not run_pending():
                break
    if pending and not violations:
        run_pending()
    out = {
        "violations": violations,
        "log_hash": ps.log_hash(logs),
        "steps": acc["steps"], "sim_ns": acc["steps"] * 10 ** 6,
        "nontrivial": probes["builds_after_edit"] > 0,
        "distinct_key": hashlib.sha256(json.dumps([scn["init"], scn["ops"], scn["mode"], scn.get("raw"), scn.get("inproc", 1)], sort_keys=True).encode()).hexdigest()[:16],
        "probes": probes,
        "states": [hashlib.sha256(json.dumps(sb.tree_state()).encode()).hexdigest()[:12]],
        "summary": builds[-3:],
        "excerpt": logs[:15],
    }
    if violations:
        out["full_log"] = logs
    return out


def signature(scn, out):
    v = out["violations"][0]
    msg = sc.normalise_msg(v[1].split(": ", 1)[-1]) if v[0] == "exception" else ""
    if scn.get("raw") and v[0] == "stale-output":
        # non-OKL kernels record no dependencies at all: any edit of an included header is missed,
        # whatever the edit was; one finding, not one per edit kind
        return "%s|stale-output|okl=off" % PROP
    kinds = sorted(set(op[0].replace("edit_during_build", "edit-during-build").replace("build_wrong_name", "wrong-kernel-name") for op in scn["ops"] if op[0] != "build"))
    return "%s|%s|%s|okl=%s|edits=%s%s" % (PROP, v[0], msg, "off" if scn.get("raw") else "on", "+".join(kinds),
                                           ("|angle-include" if scn.get("angle") else "") +
                                           ("|several-builds-in-one-process" if scn.get("inproc", 1) > 1 else ""))


def minimise(ex, scn, out, cls):
    def fails(s):
        o = ex.run1(s)
        return cls in [v[0] for v in o.get("violations", [])], o

    ops = list(scn["ops"])

    def fails_ops(sub):
        if not any(o[0] == "build" for o in sub):
            return False
        return fails(dict(scn, ops=sub))[0]
    ops = common.ddmin(ops, fails_ops, max_tests=60)
    cur = dict(scn, ops=ops)
    if cur.get("inproc", 1) > 1 and fails(dict(cur, inproc=1))[0]:
        cur["inproc"] = 1
    if cur["mode"] != "Serial":
        if fails(dict(cur, mode="Serial"))[0]:
            cur["mode"] = "Serial"
    # simplify the initial state towards body 0 / no nested include
    for h in HEADERS:
        for (idx, val) in ((0, 0), (1, False)):
            if cur["init"][h][idx] != val:
                init = {k: list(v) for k, v in cur["init"].items()}
                init[h][idx] = val
                if fails(dict(cur, init=init))[0]:
                    cur = dict(cur, init=init)
    ok, o = fails(cur)
    return (cur, o) if ok else (scn, out)


def main(tier):
    ps.ensure_engine()
    ex = pscheck.Explorer(PROP, tier, "exploration", gen, execute, signature, minimise)
    ex.report.rule = ("24 systematic histories first (inclusion kind x file/string kernel x process grouping x edited header); then: one run = a seeded history of 5-25 operations (set header contents from a 6-letter alphabet, copy/swap contents "
                      "between headers, add/remove a nested #include, revert two steps, clock jump, build of a file kernel or of a "
                      "string kernel with an includes property; 12% of histories use a non-OKL kernel) with every build in a fresh "
                      "simulated process on one shared cache, or (half of the histories) 2-4 consecutive builds and the edits "
                      "between them in one process; non-trivial = at least one build follows an edit; distinct = hash of the history")
    ex.report.assumptions = [
        "every #define in a header is guarded by #ifndef, so the model is 'first definition wins' along the include order",
        "headers live in the project directory; they are reached by quoted includes, through the includes property, or by angle includes through okl/include_paths = [project directory] (a second directory that shadows a header is not generated)",
        "builds do not overlap each other (that is C09's subject); an editor process may overlap a build, and that build is not judged",
    ]
    sysc = systematic()
    for sscn, o in zip(sysc, ex.pool.map(pscheck._exec_task, [(execute, x) for x in sysc])):
        ex.absorb(sscn, o)
    ex.explore(common.budget(tier, 80, 900))
    return ex.finish()


def replay(path):
    ps.ensure_engine()
    return pscheck.replay_main(PROP, execute, path)
