"""C03 — engine handlesim (see lib/hsmain.py, lib/hcheck.py, lib/hmodel.py)."""
from .. import hsmain


def main(tier):
    return hsmain.main("C03", tier)


def replay(path):
    return hsmain.replay("C03", path)
