"""Driver for C20: generated OKL kernels, every backend translation compiled by g++ (GPU dialects against
shim headers) and run under the launch-model emulator / simulated OpenMP runtime on the deterministic
thread scheduler; oracle = the generator's own sequential reference, plus race detection over the
recorded trace (CUDA-style happens-before: same block and separated by a barrier, or both atomic) and
the guard-zone heap checker."""
import hashlib
import json
import os
import re
import struct
import subprocess

from . import build, common, oklgen, kcheck

ENG = os.path.join(build.VERIF, "engines", "gpusim")
SHIM = os.path.join(ENG, "shim")
SIMRT = os.path.join(build.VERIF, "engines", "simrt")
BIN = os.path.join(build.WORK, "bin")
KCACHE = kcheck.KCACHE
GPU_MODES = ["cuda", "hip", "opencl", "metal", "dpcpp"]
MODES = ["serial", "openmp"] + GPU_MODES


def ensure_engine():
    kcheck.ensure_engine()
    with build.Lock("gsim-tool"):
        build.cxx(os.path.join(BIN, "gsim"),
                  [os.path.join(ENG, "gsim.cpp"), os.path.join(ENG, "gpusim.cpp"), os.path.join(SIMRT, "simrt.cpp"), os.path.join(SIMRT, "simomp.cpp")],
                  flags=["-rdynamic", "-pthread"], libs=["-ldl"])


class Server(kcheck.Server):
    def __init__(self, tag):
        self.trace = os.path.join(kcheck.scratch(), "gsim-%s.trace" % tag)
        self.errfile = os.path.join(build.WORK, "gsim-err-%s.txt" % tag)
        self.proc = None

    def start(self):
        self.err = open(self.errfile, "w")
        self.proc = subprocess.Popen(["setarch", "-R", os.path.join(BIN, "gsim"), self.trace], stdin=subprocess.PIPE,
                                     stdout=subprocess.PIPE, stderr=self.err, text=True, bufsize=1 << 16)
        if self.proc.stdout.readline().strip() != "READY":
            raise RuntimeError("gsim did not start")

    def run(self, ref, be, kind, nk, n, team, seed, first, dataseed, switches=(), trace=False):
        if self.proc is None or self.proc.poll() is not None:
            self.start()
        self.err.seek(0)
        self.err.truncate()
        p = self.proc
        lines = ["RUN %s %s %s %d %d %d %d %d %d %d %d" % (ref, be, kind, nk, n, team, seed, first, dataseed, 1 if trace else 0, len(switches))]
        for (r, t, k, u) in switches:
            lines.append("S %d %d %d %d" % (r, t, k, u))
        p.stdin.write("\n".join(lines) + "\n")
        p.stdin.flush()
        out = {"ref": None, "out": None, "steps": [], "fired": 0, "launches": 0, "blocks": 0}
        while True:
            line = p.stdout.readline()
            if not line:
                raise RuntimeError("gsim died: " + open(self.errfile).read()[-1500:])
            line = line.rstrip("\n")
            if line.startswith("STATUS "):
                t = line.split()
                out["status"], out["sig"] = int(t[1]), int(t[2])
                break
            if line.startswith("REF "):
                out["ref"] = line[4:]
            elif line.startswith("OUT "):
                out["out"] = line[4:]
            elif line.startswith("STEPS "):
                t = line.split()
                out["steps"].append(tuple(int(x) for x in t[1:]))
            elif line.startswith("FIRED "):
                out["fired"] = int(line.split()[1])
            elif line.startswith("LAUNCHES "):
                out["launches"] = int(line.split()[1])
            elif line.startswith("BLOCKS "):
                out["blocks"] = int(line.split()[1])
        out["stderr"] = ""
        if out["status"] != 0 or out["sig"]:
            try:
                out["stderr"] = open(self.errfile).read()[-1200:]
            except OSError:
                pass
        return out


_server = None


def server():
    global _server
    if _server is None:
        _server = Server("w%s-%d" % (common.worker_id(), os.getpid()))
    return _server


# ------------------------------------------------------------------ translate + compile

def _sh(cmd):
    return subprocess.run(cmd, stdout=subprocess.PIPE, stderr=subprocess.STDOUT, text=True)


def translate(src, tag, mode):
    d = os.path.join(kcheck.scratch(), "g-%s-%d" % (common.worker_id(), os.getpid()))
    os.makedirs(d, exist_ok=True)
    okl = os.path.join(d, tag + ".okl")
    with open(okl, "w") as f:
        f.write(src)
    dev = os.path.join(d, "%s_%s_dev.cpp" % (tag, mode))
    lau = os.path.join(d, "%s_%s_lau.cpp" % (tag, mode))
    r = _sh([os.path.join(BIN, "okl2cpp"), mode, okl, dev, lau])
    if r.returncode != 0:
        return None, r.stdout[-300:]
    res = {"device": open(dev).read(), "diag": r.stdout[-2000:]}
    if mode in GPU_MODES:
        res["launcher"] = open(lau).read()
    return res, ""


ADAPTER_COMMON = '''
extern "C" void gpusim_dispatch(int kernel, const unsigned *outer, const unsigned *inner, int n,
                                void *in0, void *in1, void *out0, void *out1, void *fout) {
  gpusim_args a = { n, (const int*) in0, (const int*) in1, (int*) out0, (int*) out1, (float*) fout, kernel };
%s
}
'''


def bounds_checks(mode, device_text):
    """C++ statements that compare the launched block with what the translation declares for each device kernel."""
    out = ""
    if mode in ("cuda", "hip"):
        for (n, k) in re.findall(r"__launch_bounds__\((\d+)\)\s*void\s+_occa_k_(\d+)", device_text):
            out += ('  if (kernel == %s && (unsigned long) inner[0] * inner[1] * inner[2] > %sul) '
                    'gpusim_launch_bounds_violation(kernel, inner[0], inner[1], inner[2], "__launch_bounds__(%s)");\n' % (k, n, n))
    elif mode == "opencl":
        for (x, y, z, k) in set(re.findall(r"reqd_work_group_size\((\d+),\s*(\d+),\s*(\d+)\)\)\)\s*void\s+_occa_k_(\d+)", device_text)):
            out += ('  if (kernel == %s && (inner[0] != %su || inner[1] != %su || inner[2] != %su)) '
                    'gpusim_launch_bounds_violation(kernel, inner[0], inner[1], inner[2], "reqd_work_group_size(%s,%s,%s)");\n' % (k, x, y, z, x, y, z))
    return out


def adapter(mode, device_text):
    text, nk = _adapter(mode, device_text)
    chk = bounds_checks(mode, device_text)
    if chk:
        text = text.replace("  gpusim_args a = {", chk + "  gpusim_args a = {", 1)
    return text, nk


def _adapter(mode, device_text):
    ks = sorted(set(int(x) for x in re.findall(r"_occa_k_(\d+)\s*\(", device_text)))
    if mode in ("cuda", "hip", "opencl"):
        calls = "".join("    case %d: _occa_k_%d(a.n, a.in0, a.in1, a.out0, a.out1, a.fout); break;\n" % (k, k) for k in ks)
        body = "static void gpusim_body(void *p) {\n  gpusim_args &a = *(gpusim_args*) p;\n  switch (a.kernel) {\n%s  }\n}\n" % calls
        launch = ("  gpusim_dim3 grid = { outer[0], outer[1], outer[2] }, block = { inner[0], inner[1], inner[2] };\n"
                  "  gpusim_launch(gpusim_body, &a, grid, block);")
        return body + ADAPTER_COMMON % launch, len(ks)
    if mode == "metal":
        calls = "".join("    case %d: _occa_k_%d(a.n, a.in0, a.in1, a.out0, a.out1, a.fout, g, t); break;\n" % (k, k) for k in ks)
        body = ("static void gpusim_body(void *p) {\n  gpusim_args &a = *(gpusim_args*) p;\n"
                "  metal::uint3 g = { gpusim_blockIdx.x, gpusim_blockIdx.y, gpusim_blockIdx.z }, t = { gpusim_threadIdx.x, gpusim_threadIdx.y, gpusim_threadIdx.z };\n"
                "  switch (a.kernel) {\n%s  }\n}\n" % calls)
        launch = ("  gpusim_dim3 grid = { outer[0], outer[1], outer[2] }, block = { inner[0], inner[1], inner[2] };\n"
                  "  gpusim_launch(gpusim_body, &a, grid, block);")
        return body + ADAPTER_COMMON % launch, len(ks)
    if mode == "dpcpp":
        calls = "".join("    case %d: _occa_k_%d(&q, &r, a.n, a.in0, a.in1, a.out0, a.out1, a.fout); break;\n" % (k, k) for k in ks)
        launch = ("  sycl::queue q;\n"
                  "  sycl::nd_range<3> r(sycl::range<3>((size_t) outer[2] * inner[2], (size_t) outer[1] * inner[1], (size_t) outer[0] * inner[0]),\n"
                  "                      sycl::range<3>(inner[2], inner[1], inner[0]));\n"
                  "  switch (a.kernel) {\n%s  }" % calls)
        return ADAPTER_COMMON % launch, len(ks)
    raise ValueError(mode)


def compile_backend(mode, tr, variant="static"):
    """Returns (so path, kind, number of device kernels, error text)."""
    if mode == "serial":
        so, why = kcheck.compile_so(tr["device"], False)
        return so, "direct", 1, why
    if mode == "openmp":
        so, why = kcheck.compile_so(kcheck.omp_variant(tr["device"], variant), True)
        return so, "direct", 1, why
    text, nk = adapter(mode, tr["device"])
    dev_text = tr["device"]
    if mode == "metal":
        dev_text = dev_text + "\n#undef kernel\n#undef device\n#undef constant\n#undef threadgroup\n"
    full = dev_text + "\n" + text
    key = hashlib.sha256((mode + "\n" + full + "\n@@launcher\n" + tr["launcher"]).encode()).hexdigest()[:24]
    so = os.path.join(KCACHE, key + "_d.so") + "," + os.path.join(KCACHE, key + "_l.so")
    if all(os.path.exists(x) for x in so.split(",")):
        return so, "launcher", nk, ""
    dsrc, lsrc = os.path.join(KCACHE, key + "_d.cpp"), os.path.join(KCACHE, key + "_l.cpp")
    with open(dsrc, "w") as f:
        f.write(full)
    with open(lsrc, "w") as f:
        f.write(tr["launcher"])
    flags = ["-O1", "-fPIC", "-fsanitize=thread", "-std=c++17", "-w", "-I", SHIM]
    inc = {"cuda": ["-include", os.path.join(SHIM, "cuda_shim.h")], "opencl": ["-include", os.path.join(SHIM, "opencl_shim.h")]}.get(mode, [])
    # device code and launcher are separate binaries in OCCA too (both may define the kernel's helper functions)
    for src, extra in ((dsrc, inc), (lsrc, [])):
        obj = src[:-4] + ".o"
        r = _sh(["g++"] + flags + extra + ["-x", "c++", "-c", src, "-o", obj])
        if r.returncode != 0:
            return None, "launcher", nk, "%s does not compile against the %s shim: %s" % (os.path.basename(src), mode, r.stdout[-1500:])
        tmp = src[:-4] + ".so.%d.tmp" % os.getpid()
        r = _sh(["g++", "-shared", "-o", tmp, obj])
        if r.returncode != 0:
            return None, "launcher", nk, r.stdout[-500:]
        os.replace(tmp, src[:-4] + ".so")
        try:
            os.unlink(obj)
        except OSError:
            pass
    return so, "launcher", nk, ""


def compile_ref(src):
    text = oklgen.reference(src)
    key = hashlib.sha256(("ref:" + text).encode()).hexdigest()[:24]
    so = os.path.join(KCACHE, key + ".so")
    if os.path.exists(so):
        return so, ""
    cpp = os.path.join(KCACHE, key + ".cpp")
    with open(cpp, "w") as f:
        f.write(text)
    obj = cpp[:-4] + ".o"
    r = _sh(["g++", "-O1", "-fPIC", "-fsanitize=thread", "-c", cpp, "-o", obj])
    if r.returncode != 0:
        return None, r.stdout[-500:]
    tmp = so + ".%d.tmp" % os.getpid()
    r = _sh(["g++", "-shared", "-o", tmp, obj])
    if r.returncode != 0:
        return None, r.stdout[-500:]
    os.replace(tmp, so)
    return so, ""


# ------------------------------------------------------------------ trace analysis (launch model)

def read_trace(path):
    try:
        data = open(path, "rb").read()
    except OSError:
        return []
    recs = []
    for i in range(0, len(data) - 15, 16):
        a, addr = struct.unpack_from("<QQ", data, i)
        recs.append((a >> 56, (a >> 48) & 0xff, (a >> 32) & 0xffff, a & 0xffffffff, addr))
    return recs


ARENA_LO, ARENA_HI = 0x200000000000, 0x200000000000 + (6 << 30)


def analyse(trace):
    """Races under the launch model: within one launch, two accesses to one address by different
    (block, thread) identities, at least one a plain write (or one atomic and one plain), are unordered
    unless they are in the same block and separated by a barrier, or protected by a common lock."""
    launch = 0
    region = 0
    epoch = {}
    locks = {}
    by = {}
    for (tid, kind, size, step, addr) in trace:
        if kind == 9:
            launch += 1
            continue
        if kind == 8:
            region = step
            epoch = {}
            locks = {}
            continue
        if kind == 6:
            epoch[tid] = epoch.get(tid, 0) + 1
            continue
        if kind == 3:
            locks.setdefault(tid, set()).add(addr)
            continue
        if kind == 4:
            locks.setdefault(tid, set()).discard(addr)
            continue
        if kind in (1, 2, 5):
            by.setdefault((launch, addr), []).append((region, tid, step, kind, epoch.get(tid, 0), frozenset(locks.get(tid, ()))))
    races = []
    conflicts = []
    for (launch, addr), acc in by.items():
        ids = set((a[0], a[1]) for a in acc)
        if len(ids) < 2 or not any(a[3] in (2, 5) for a in acc):
            continue
        conflicts.append((launch, addr, [(a[0], a[1], a[2], a[3]) for a in acc]))
        # compare distinct identities pairwise on a reduced set (first read / first write / first atomic per identity and epoch)
        red = {}
        for a in acc:
            red.setdefault((a[0], a[1], a[3], a[4], a[5]), a)
        acc2 = list(red.values())
        found = None
        for i in range(len(acc2)):
            for j in range(i + 1, len(acc2)):
                a, b = acc2[i], acc2[j]
                if (a[0], a[1]) == (b[0], b[1]):
                    continue
                if a[3] == 1 and b[3] == 1:
                    continue
                if a[3] == 5 and b[3] == 5:
                    continue
                if a[5] & b[5]:
                    continue
                if a[0] == b[0] and a[4] != b[4]:
                    continue          # same block, separated by a barrier
                if a[0] != b[0] and not (ARENA_LO <= addr < ARENA_HI):
                    continue          # different blocks: only global memory is shared between blocks
                                      # (__shared__/__local/threadgroup storage is one static instance reused by sequential blocks)
                found = (launch, addr, a, b)
                break
            if found:
                break
        if found:
            races.append(found)
    return races, conflicts


KIND = {1: "read", 2: "write", 5: "atomic"}


def judge(out):
    if out["status"] == 78:
        kind, text = "simrt-report", out["stderr"].strip()[-300:]
        for line in out["stderr"].splitlines():
            if line.startswith("SIMRT-REPORT"):
                text = line
                kind = line.split("kind=")[1].split()[0]
        return [("ENGINE" if kind == "engine" else kind, text)]
    if out["sig"] in (24, 9):
        return [("hang", "the run used 60 s of CPU time without terminating (a run takes well under a second)")]
    if out["sig"]:
        return [("crash", "signal %d" % out["sig"])]
    if out["status"] != 0:
        return [("ENGINE", "gsim exit status %s: %s" % (out["status"], out["stderr"][-300:]))]
    if out["ref"] != out["out"]:
        a, b = bytes.fromhex(out["ref"]), bytes.fromhex(out["out"])
        i = next(i for i in range(len(a)) if a[i] != b[i])
        arr, idx = ("out0", i // 4) if i < 256 else (("out1", (i - 256) // 4) if i < 512 else ("fout", (i - 512) // 4))
        va = int.from_bytes(a[(i // 4) * 4:(i // 4) * 4 + 4], "little", signed=True)
        vb = int.from_bytes(b[(i // 4) * 4:(i // 4) * 4 + 4], "little", signed=True)
        return [("output-mismatch:" + arr, "%s[%d]: the sequential reading gives %d (raw word), this backend gives %d" % (arr, idx, va, vb))]
    return []


def run_config(kernel, mode, cfg, trace=True):
    """Translate, compile and run one (kernel, backend, schedule configuration).  Returns (violations, out, info)."""
    ref, why = compile_ref(kernel["source"])
    if ref is None:
        return [("ENGINE", "reference does not compile: " + why)], {}, {}
    tr, why = translate(kernel["source"], "k", mode)
    if tr is None:
        return [("rejected", why)], {}, {}
    so, kind, nk, why = compile_backend(mode, tr, cfg.get("variant", "static"))
    if so is None:
        if "Variable not defined in this scope" in tr.get("diag", ""):
            # the translator itself printed this error for a device kernel that reads a variable declared by the
            # kernel's host-side code, and carried on (it does not count the message as a failure)
            return [("host-variable-not-passed-to-device-kernel",
                     "the translator printed `Variable not defined in this scope`, still reported success, and its output does not compile: "
                     + why[-300:])], {}, {}
        return [("translation-does-not-compile", why[-500:])], {}, {}
    srv = server()
    sw = [tuple(x) for x in cfg.get("switches", [])]
    out = srv.run(ref, so, kind, nk, kernel["n"], cfg["team"], cfg["seed"], cfg["first"], cfg["dataseed"], switches=sw, trace=trace)
    v = judge(out)
    info = {"conflicts": [], "races": []}
    if not v and trace and kind == "direct":
        # host backends: parallel regions are sequential; lockset analysis per region
        races, conflicts = kcheck.analyse(read_trace(srv.trace))
        info["conflicts"] = [(rg, addr, [(rg, t, s2, kk) for (t, s2, kk) in acc]) for (rg, addr, acc) in conflicts]
        if races:
            rg, addr, a, b = races[0]
            v = [("data-race", "region %d: thread %d (%s) and thread %d (%s) touch the same address without ordering" %
                  (rg, a[0], KIND[a[2]], b[0], KIND[b[2]]))]
    elif not v and trace:
        races, conflicts = analyse(read_trace(srv.trace))
        info["conflicts"] = conflicts
        if races:
            la, addr, a, b = races[0]
            v = [("data-race", "launch %d: block-region %d thread %d (%s) and block-region %d thread %d (%s) touch the same address without ordering" %
                  (la, a[0], a[1], KIND[a[3]], b[0], b[1], KIND[b[3]]))]
    return v, out, info


def explore_kernel(seed, nruns):
    r = common.rng(seed, "c20")
    k = oklgen.gen(seed)
    res = {"seed": seed, "features": k["features"], "runs": 0, "violations": [], "rejected": {}, "fired": 0, "steps": 0, "distinct": [],
           "modes": {}, "blocks": 0, "sample": None, "known": {}}
    khash = hashlib.sha256(k["source"].encode()).hexdigest()[:12]
    modes = list(MODES)
    r.shuffle(modes)
    for mode in modes:
        if res["runs"] >= nruns:
            break
        cfg = {"team": r.choice([1, 2, 3, 4, 8]), "seed": r.randint(1, 10 ** 6), "first": 1, "dataseed": r.randint(1, 10 ** 6),
               "variant": r.choice(["static", "runtime", "dynamic1"]), "switches": []}
        v, out, info = run_config(k, mode, cfg)
        if v and v[0][0] == "rejected":
            res["rejected"][mode] = v[0][1][:200]
            continue
        res["runs"] += 1
        res["modes"][mode] = res["modes"].get(mode, 0) + 1
        res["steps"] += sum(s[-1] for s in out.get("steps", []))
        res["blocks"] += out.get("blocks", 0)
        if v:
            res["violations"].append({"class": v[0][0], "text": v[0][1], "kernel": k, "mode": mode, "cfg": cfg})
            continue
        res["distinct"].append("%s:%s:%d:%d" % (khash, mode, cfg["team"], cfg["seed"]))
        # one scripted schedule around a conflicting access (atomics, shared tiles)
        confl = info["conflicts"]
        if confl and res["runs"] < nruns:
            (la, addr, acc) = r.choice(confl)
            (rg, ta, sa, ka) = r.choice(acc)
            others = sorted(set(t for (g2, t, s, kk) in acc if g2 == rg and t != ta))
            if others:
                tb = r.choice(others)
                cfg2 = dict(cfg, switches=[[rg, ta, max(1, sa + r.choice([0, 1])), tb]])
                v2, out2, _ = run_config(k, mode, cfg2, trace=False)
                res["runs"] += 1
                res["fired"] += out2.get("fired", 0)
                res["steps"] += sum(s[-1] for s in out2.get("steps", []))
                if out2.get("fired"):
                    res["distinct"].append("%s:%s:%s" % (khash, mode, cfg2["switches"]))
                if v2:
                    res["violations"].append({"class": v2[0][0], "text": v2[0][1], "kernel": k, "mode": mode, "cfg": cfg2})
        if res["sample"] is None and mode in GPU_MODES:
            res["sample"] = {"kernel": k["source"], "n": k["n"], "backend": mode, "config": cfg, "launches": out.get("launches"),
                             "blocks": out.get("blocks"), "steps_per_thread": out["steps"][:6]}
    return res
