"""Python side of the procsim engine: sandboxes, scenario files, running the tracer,
parsing its event log and results."""
import hashlib
import json
import os
import re
import shutil
import subprocess

from . import build

WORK = build.WORK
ENG = os.path.join(build.VERIF, "engines", "procsim")
BIN = os.path.join(WORK, "bin")
MEMO = os.path.join(WORK, "ccmemo")
REAL_CXX = "/usr/bin/g++"


def ensure_engine():
    """(Re)build libocca 'plain' from /repo's working tree and the procsim tools."""
    build.ensure("plain")
    os.makedirs(BIN, exist_ok=True)
    os.makedirs(MEMO, exist_ok=True)
    with build.Lock("procsim-tools"):
        build.cxx(os.path.join(BIN, "procsim"), [os.path.join(ENG, "procsim.cpp")], flags=["-Wall"])
        build.cxx(os.path.join(BIN, "simcc"), [os.path.join(ENG, "simcc.cpp")])
        so = os.path.join(BIN, "libsimenv.so")
        build.cxx(so, [os.path.join(ENG, "simenv.cpp")], flags=["-shared", "-fPIC"])
        link = os.path.join(BIN, "simcc-b")
        if not os.path.islink(link):
            try:
                os.symlink("simcc", link)
            except FileExistsError:
                pass
        build.cxx(os.path.join(BIN, "occa_builder"), [os.path.join(ENG, "occa_builder.cpp")], variant="plain")


def scratch_base():
    for d in ("/dev/shm", os.path.join(WORK, "sb")):
        try:
            os.makedirs(d, exist_ok=True)
            if os.access(d, os.W_OK):
                return d
        except OSError:
            pass
    raise SystemExit(2)


class Sandbox:
    """One simulated world: R/{cache,proj} plus an outside area for job files, stdout, logs.
    The absolute path has a fixed length for every worker so that byte counts in the event
    log do not depend on which worker executed the run."""

    @classmethod
    def at(cls, top):
        return cls(None, top=top)

    def __init__(self, tag, top=None):
        base = os.path.join(scratch_base(), "occaverif")
        self.top = top or os.path.join(base, "%-24s" % tag).replace(" ", "_")[: len(base) + 25]
        for d in ("r", "o"):
            shutil.rmtree(os.path.join(self.top, d), ignore_errors=True)
        self.R = os.path.join(self.top, "r")
        self.cache = os.path.join(self.R, "occa")       # (a path component named "occa": sys::rmrf refuses other places)
        self.proj = os.path.join(self.R, "proj")
        self.outside = os.path.join(self.top, "o")
        for d in (self.cache, self.proj, self.outside):
            os.makedirs(d)
        self.clockfile = os.path.join(self.outside, "clock")
        self.ngroups = 0
        self.now_ns = 0          # simulated time at the end of the last group (stamps files written from outside)

    def reset(self):
        shutil.rmtree(self.R, ignore_errors=True)
        shutil.rmtree(self.outside, ignore_errors=True)
        for d in (self.cache, self.proj, self.outside):
            os.makedirs(d)
        self.ngroups = 0
        self.now_ns = 0

    def destroy(self):
        shutil.rmtree(self.top, ignore_errors=True)

    def write_proj(self, name, text):
        p = os.path.join(self.proj, name)
        os.makedirs(os.path.dirname(p), exist_ok=True)
        with open(p, "w") as f:
            f.write(text)
        t = 1700000000 * 10 ** 9 + self.now_ns
        os.utime(p, ns=(t, t))

    def tree_state(self):
        """Normalised listing of the simulated tree: (relative path, size) with temp-name
        prefixes replaced; used for the distinct-states measure."""
        items = []
        for root, dirs, files in os.walk(self.R):
            dirs.sort()
            for fn in sorted(files):
                p = os.path.join(root, fn)
                try:
                    sz = os.path.getsize(p)
                except OSError:
                    sz = -1
                relp = os.path.relpath(p, self.R)
                items.append((TEMP_RE.sub("T.", relp), sz))
        return items


TEMP_RE = re.compile(r"(?<![0-9a-f])[0-9a-f]{16}\.")


class VProcSpec:
    def __init__(self, job, delay=0, clock_base_ns=None, env=None, exe=None):
        self.job = job           # dict: the occa_builder job spec
        self.delay = delay
        self.clock_base_ns = clock_base_ns
        self.env = env or {}
        self.exe = exe


class GroupResult:
    pass


def run_group(sb, seed, vprocs, strategy=("rtb", 10, 8), faults=(), switches=None,
              clock0=0, tick=1000000, maxsteps=6000, timeout=120, chunks=3):
    """Run one group of concurrent vprocs on sandbox `sb`.  Returns GroupResult with
    .log (list of lines), .vp (list of dict per vproc), .outputs (list of list of parsed
    JSON lines per vproc), .gsteps, .inconclusive."""
    g = sb.ngroups
    sb.ngroups += 1
    prefix = os.path.join(sb.outside, "g%d" % g)
    lines = ["root " + sb.R, "out " + prefix, "seed %d" % seed, "clockfile " + sb.clockfile,
             "clock0 %d" % clock0, "tick %d" % tick, "maxsteps %d" % maxsteps,
             "transparent " + REAL_CXX,
             "countexec " + os.path.join(BIN, "simcc"), "countexec " + os.path.join(BIN, "simcc-b")]
    if switches is not None:
        lines.append("strategy script")
        for d, v in sorted(switches.items()):
            lines.append("switch %d %d" % (int(d), v))
    else:
        lines.append("strategy " + " ".join(str(x) for x in strategy))
    for i, vp in enumerate(vprocs):
        jf = os.path.join(sb.outside, "g%d-v%d.job.json" % (g, i))
        with open(jf, "w") as f:
            json.dump(vp.job, f)
        env = {
            "PATH": "/usr/local/bin:/usr/bin:/bin",
            "HOME": sb.outside,
            "LANG": "C",
            "OCCA_CACHE_DIR": sb.cache,
            "OMP_NUM_THREADS": "1",
            "LD_PRELOAD": os.path.join(BIN, "libsimenv.so"),
            "SIM_SEED": str(seed),
            "SIM_VPROC": str(g * 64 + i),
            "SIM_CLOCK_FILE": sb.clockfile,
            "SIMCC_MEMO": MEMO,
            "SIMCC_CHUNKS": str(chunks),
            "SIMCC_REAL": REAL_CXX,
        }
        if vp.clock_base_ns is not None:
            env["SIM_CLOCK_BASE_NS"] = str(vp.clock_base_ns)
        env.update(vp.env)
        exe = vp.exe or os.path.join(BIN, "occa_builder")
        lines.append("vproc %d %d %s %s %s %s %s -- %s" % (
            i, vp.delay, sb.proj, prefix + "-v%d.out" % i, prefix + "-v%d.err" % i, exe, jf,
            " ".join("%s=%s" % kv for kv in sorted(env.items()))))
    for (v, step, kind, *rest) in faults:
        lines.append("fault %d %d %s %s" % (v, step, kind, rest[0] if rest else ""))
    scen = prefix + ".scen"
    with open(scen, "w") as f:
        f.write("\n".join(lines) + "\n")
    try:
        r = subprocess.run([os.path.join(BIN, "procsim"), scen], stdout=subprocess.PIPE,
                           stderr=subprocess.PIPE, text=True, timeout=timeout)
    except subprocess.TimeoutExpired:
        raise EngineError("procsim watchdog expired for " + scen)
    if r.returncode != 0:
        raise EngineError("procsim failed rc=%s: %s" % (r.returncode, r.stderr[-2000:]))
    res = GroupResult()
    res.scenario = lines

    with open(prefix + ".log") as f:
        res.log = f.read().splitlines()
    res.vp = []
    res.gsteps = 0
    res.inconclusive = False
    with open(prefix + ".res") as f:
        for line in f:
            t = line.split()
            if t[0] == "gsteps":
                res.gsteps = int(t[1])
            elif t[0] == "inconclusive":
                res.inconclusive = t[1] == "1"
            elif t[0] == "vproc":
                d = dict(zip(t[2::2], (int(x) for x in t[3::2])))
                res.vp.append(d)
    sb.now_ns = clock0 + res.gsteps * tick
    res.outputs = []
    res.stderr = []
    for i in range(len(vprocs)):
        outs = []
        try:
            with open(prefix + "-v%d.out" % i) as f:
                for line in f:
                    line = line.strip()
                    if line.startswith("{"):
                        try:
                            outs.append(json.loads(line))
                        except ValueError:
                            outs.append({"status": "garbled", "raw": line[:200]})
        except OSError:
            pass
        res.outputs.append(outs)
        try:
            with open(prefix + "-v%d.err" % i) as f:
                res.stderr.append(f.read()[-1500:])
        except OSError:
            res.stderr.append("")
    return res


class EngineError(Exception):
    pass


STEP_RE = re.compile(r"^(\d+) v(\d+) (\d+) ([01]) (.*) = (\S+)(.*)$")


def parse_steps(log):
    """Yield (gstep, vproc, vstep, inwrite, desc, result) for the step lines of a log."""
    out = []
    for line in log:
        m = STEP_RE.match(line)
        if m:
            out.append((int(m.group(1)), int(m.group(2)), int(m.group(3)), m.group(4) == "1",
                        m.group(5), m.group(6)))
    return out


def choices(log):
    """The sequence of vproc ids chosen at each decision."""
    return [s[1] for s in parse_steps(log)]


def switches_from_choices(ch):
    """Explicit schedule as switch points relative to the default policy of the script
    strategy (stay on the current vproc while it is parked, else lowest parked id).
    We record every change of vproc; entries that coincide with the default policy are
    harmless."""
    sw = {}
    prev = None
    for i, v in enumerate(ch):
        if v != prev:
            sw[i] = v
        prev = v
    return sw


def log_hash(log):
    h = hashlib.sha256()
    for line in log:
        h.update(line.encode())
        h.update(b"\n")
    return h.hexdigest()[:16]


def interleaving_signature(log):
    """Hash of the sequence (vproc, normalised op) restricted to paths touched by more than
    one vproc: the 'distinct interleavings' measure."""
    steps = parse_steps(log)
    touched = {}
    for (_, v, _, _, desc, _) in steps:
        parts = desc.split()
        if len(parts) > 1:
            touched.setdefault(TEMP_RE.sub("T.", parts[1]), set()).add(v)
    h = hashlib.sha256()
    n = 0
    for (_, v, _, _, desc, res) in steps:
        parts = desc.split()
        if len(parts) > 1 and len(touched.get(TEMP_RE.sub("T.", parts[1]), ())) > 1:
            h.update(("%d %s %s\n" % (v, TEMP_RE.sub("T.", desc), res)).encode())
            n += 1
    return h.hexdigest()[:16], n
