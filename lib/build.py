"""Build variants of libocca from /repo's *current working tree* into /verif/_work.

Every check calls ensure(variant) first, so edits under /repo are always
picked up (cmake re-configure re-globs the sources, ninja rebuilds what
changed).  A file lock serialises concurrent checks.
"""
import fcntl
import os
import subprocess
import sys
import time

VERIF = os.path.dirname(os.path.dirname(os.path.abspath(__file__)))
REPO = os.environ.get("VERIF_REPO", "/repo")
WORK = os.environ.get("VERIF_WORK") or os.path.join(VERIF, "_work")      # (override: isolated trial runs of seeded changes)
GUARD = "LIBOCCA_OCCA_VERIF"

VARIANTS = {
    # name: (cxxflags, extra cmake args)
    "plain": ("-O1 -g1 -D%s" % GUARD, []),
    "asan": ("-O1 -g1 -D%s -fsanitize=address -fno-omit-frame-pointer" % GUARD, []),
    "tsi": ("-O1 -g1 -D%s -fsanitize=thread" % GUARD,
            ["-DENABLE_SHARABLE_DEVICE=ON",
             "-DCMAKE_SHARED_LINKER_FLAGS=-fno-sanitize=thread"]),
}


def bdir(variant):
    return os.path.join(WORK, "build-" + variant)


def libdir(variant):
    return os.path.join(bdir(variant), "lib")


def log(msg):
    sys.stderr.write("[build] %s\n" % msg)
    sys.stderr.flush()


class Lock:
    def __init__(self, name):
        os.makedirs(WORK, exist_ok=True)
        self.path = os.path.join(WORK, name + ".lock")

    def __enter__(self):
        self.f = open(self.path, "w")
        fcntl.flock(self.f, fcntl.LOCK_EX)
        return self

    def __exit__(self, *a):
        fcntl.flock(self.f, fcntl.LOCK_UN)
        self.f.close()


def run(cmd, **kw):
    r = subprocess.run(cmd, stdout=subprocess.PIPE, stderr=subprocess.STDOUT, text=True, **kw)
    if r.returncode != 0:
        sys.stderr.write(r.stdout[-6000:])
        raise SystemExit(2)
    return r.stdout


def ensure(variant):
    """Configure + incrementally build libocca for `variant`.  Returns build dir."""
    flags, extra = VARIANTS[variant]
    b = bdir(variant)
    with Lock("build-" + variant):
        t0 = time.time()
        os.makedirs(b, exist_ok=True)
        cfg = ["cmake", "-G", "Ninja", "-S", REPO, "-B", b,
               "-DCMAKE_BUILD_TYPE=None",
               "-DCMAKE_CXX_FLAGS=" + flags,
               "-DCMAKE_C_FLAGS=" + flags.replace("-D" + GUARD, "").strip(),
               "-DOCCA_ENABLE_TESTS=OFF", "-DOCCA_ENABLE_EXAMPLES=OFF",
               "-DOCCA_ENABLE_CUDA=OFF", "-DOCCA_ENABLE_HIP=OFF",
               "-DOCCA_ENABLE_OPENCL=OFF", "-DOCCA_ENABLE_METAL=OFF",
               "-DOCCA_ENABLE_DPCPP=OFF", "-DOCCA_ENABLE_OPENMP=ON",
               "-DOCCA_ENABLE_FORTRAN=OFF"] + extra
        run(cfg)
        run(["cmake", "--build", b, "--target", "libocca", "-j", str(os.cpu_count() or 8)])
        log("%s up to date (%.1fs)" % (variant, time.time() - t0))
    return b


def cxx(out, srcs, variant=None, flags=(), libs=()):
    """Compile a harness/engine executable; rebuild only when stale."""
    srcs = list(srcs)
    deps = srcs + [os.path.abspath(__file__)]
    if variant:
        deps.append(os.path.join(libdir(variant), "libocca.so"))
    sig = " ".join([variant or "-"] + list(flags) + list(libs) + srcs)
    sigfile = out + ".cmd"
    try:
        same = open(sigfile).read() == sig
    except OSError:
        same = False
    # also rebuild when any file next to the sources changed (included .cpp/.hpp files)
    extra = []
    for sdir in set(os.path.dirname(x) for x in srcs):
        for root, _, files in os.walk(os.path.dirname(sdir)):
            extra += [os.path.join(root, f) for f in files if f.endswith((".cpp", ".hpp", ".h"))]
    deps += extra
    if same and os.path.exists(out) and all(os.path.getmtime(out) >= os.path.getmtime(d) for d in deps):
        # headers of /repo may have changed: libocca.so's mtime moves when any
        # source changed, and public headers changing force a relink through it
        return out
    cmd = ["g++", "-std=c++17", "-O1", "-g1"] + list(flags)
    if variant:
        b = bdir(variant)
        cmd += ["-D" + GUARD, "-I", os.path.join(REPO, "include"), "-I", os.path.join(b, "include"),
                "-I", os.path.join(REPO, "src")]
    cmd += srcs + ["-o", out + ".tmp"]
    if variant:
        cmd += ["-L", libdir(variant), "-locca", "-Wl,-rpath," + libdir(variant)]
    cmd += list(libs)
    run(cmd)
    os.replace(out + ".tmp", out)
    with open(sigfile, "w") as f:
        f.write(sig)
    return out


if __name__ == "__main__":
    for v in sys.argv[1:] or ["plain"]:
        ensure(v)
