"""Workloads and reference models shared by the kernel-cache checks (C06-C10)."""
import os
import re

from . import procsim as ps

N_OUT = 6


def simcc(b=False):
    return os.path.join(ps.BIN, "simcc-b" if b else "simcc")


# ------------------------------------------------------------------ simple kernels (C08, C09)

def string_kernel_src(mul):
    return ("@kernel void k(const int n, int *out) {\n"
            "  for (int i = 0; i < n; ++i; @outer) {\n"
            "    for (int j = 0; j < 1; ++j; @inner) {\n"
            "      out[i] = i * %d + ADD;\n"
            "    }\n  }\n}\n" % mul)


def file_kernel_src():
    return ('#include "a.h"\n'
            "#ifndef HA\n#define HA 1\n#endif\n"
            "@kernel void k(const int n, int *out) {\n"
            "  for (int i = 0; i < n; ++i; @outer) {\n"
            "    for (int j = 0; j < 1; ++j; @inner) {\n"
            "      out[i] = i * HA + ADD;\n"
            "    }\n  }\n}\n")


def raw_kernel_src(mul):
    # not OKL: handed to the compiler as it is (okl/enabled=false); no translation, no build.json
    return ('extern "C" void k(const int &n, int *out) {\n'
            "  for (int i = 0; i < n; ++i) out[i] = i * %d + ADD;\n}\n" % mul)


class SimpleJob:
    """A build+run job whose expected output is computed by a two-line model."""

    def __init__(self, kind, mul, add, fname="k.okl"):
        self.kind, self.mul, self.add, self.fname = kind, mul, add, fname

    def files(self):
        if self.kind == "file":
            return {self.fname: file_kernel_src(), "a.h": "#define HA %d\n" % self.mul}
        return {}

    def spec(self):
        j = {"kernel": "k", "n": N_OUT, "kind": self.kind,
             "props": {"defines": {"ADD": self.add}, "compiler": simcc()}}
        if self.kind == "string":
            j["source"] = string_kernel_src(self.mul)
        elif self.kind == "raw":
            j["kind"] = "string"
            j["source"] = raw_kernel_src(self.mul)
            j["props"]["okl"] = {"enabled": False}
        else:
            j["file"] = self.fname
        return j

    def expected(self):
        return [i * self.mul + self.add for i in range(N_OUT)]

    def describe(self):
        return "%s(mul=%d,add=%d)" % (self.kind, self.mul, self.add)


def judge_outputs(outputs, vpres, jobs, who):
    """Compare one vproc's output lines with the model.  Returns list of (class, text)."""
    bad = []
    if vpres["sig"]:
        bad.append(("crash", "%s died with signal %d" % (who, vpres["sig"])))
        return bad
    by = {o.get("job"): o for o in outputs}
    if -1 in by:
        bad.append(("exception", "%s: %s" % (who, by[-1].get("what", ""))))
        return bad
    for idx, job in enumerate(jobs):
        o = by.get(idx)
        if o is None:
            bad.append(("no-result", "%s job %d (%s) printed no result (exit status %s)" %
                        (who, idx, job.describe(), vpres["status"])))
            continue
        if o.get("status") != "ok":
            bad.append(("exception", "%s job %d (%s): %s" % (who, idx, job.describe(), o.get("what", o.get("status")))))
            continue
        if o.get("out") != job.expected():
            bad.append(("wrong-output", "%s job %d (%s): got %s expected %s" %
                        (who, idx, job.describe(), o.get("out"), job.expected())))
    if not bad and vpres["status"] != 0:
        bad.append(("bad-exit", "%s exit status %s" % (who, vpres["status"])))
    return bad


MSG_NORMALISE = [
    (re.compile(r"/[^\s\]\[\"']+"), "<path>"),
    (re.compile(r"\b[0-9a-f]{16,64}\b"), "<hash>"),
    (re.compile(r"\d+"), "N"),
]


def normalise_msg(msg):
    for rx, rep in MSG_NORMALISE:
        msg = rx.sub(rep, msg)
    return msg[:100].strip()


# ------------------------------------------------------------------ in-flight conflicts

def basename_norm(path):
    b = path.rsplit("/", 1)[-1]
    return ps.TEMP_RE.sub("T.", b)


def racy_files(log, victim=None):
    """Files (normalised basenames) that some vproc opened/read/stat'ed/exec'ed while another
    vproc was inside an in-flight write window on the same path (opened for writing, not yet
    past its last write).  Used to identify *where* two processes collided."""
    steps = ps.parse_steps(log)
    window = {}            # vproc -> path being written
    hits = set()
    for (_, v, _, _, desc, res) in steps:
        parts = desc.split()
        op, path = parts[0], parts[1] if len(parts) > 1 else ""
        # conflicts: v touches a path another vproc has in flight
        for w, p in window.items():
            if w != v and p == path and (victim is None or v == victim):
                hits.add(basename_norm(path))
        if op == "open":
            fl = 0
            for t in parts:
                if t.startswith("fl="):
                    fl = int(t[3:], 8)
            if (fl & 3) != 0 and not res.startswith("E"):
                window[v] = path
            elif v in window:
                del window[v]
        elif op in ("write", "writev", "fsync", "fstat", "chmod", "fchmod", "ftruncate"):
            pass
        else:
            window.pop(v, None)
    return sorted(hits)


def trusted_partial_files(log_a, log_b):
    """For crash runs: files the follow-up process opened/stat'ed successfully whose last
    writer in the crashed process never finished (open-for-write seen, no later rename away
    from / completion)."""
    inflight = set()
    for (_, v, _, _, desc, res) in ps.parse_steps(log_a):
        parts = desc.split()
        if parts[0] == "open" and not res.startswith("E"):
            fl = 0
            for t in parts:
                if t.startswith("fl="):
                    fl = int(t[3:], 8)
            if fl & 3:
                inflight.add(parts[1])
    used = set()
    for (_, v, _, _, desc, res) in ps.parse_steps(log_b):
        parts = desc.split()
        if parts[0] in ("open", "stat", "read", "exec") and not res.startswith("E") and parts[1] in inflight:
            used.add(basename_norm(parts[1]))
    return sorted(used)
