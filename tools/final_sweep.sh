#!/bin/bash
# final_sweep.sh -- every registered quick command in turn on the unchanged tree; validates MANIFEST.json and evidence/*.json
cd /verif
git -C /repo status --short | grep -v '^?? _build' && { echo "/repo is not clean"; exit 1; }
rc_all=0
for p in C01 C02 C03 C04 C05 C06 C07 C08 C09 C10 C20 C21 C30; do
  ./check $p --tier quick > /tmp/final.$p 2>&1; rc=$?
  echo "$p rc=$rc known=$(grep -c '^KNOWN-FINDING' /tmp/final.$p) $(grep -v KNOWN /tmp/final.$p | tail -1 | cut -c1-140)"
  [ $rc -ne 0 ] && rc_all=1
done
python3 tools/gen_manifest.py > /dev/null
python3-vt - <<'PY'
import json, jsonschema, glob
jsonschema.validate(json.load(open('/verif/MANIFEST.json')), json.load(open('/root/.vp/MANIFEST.schema.json')))
sch = json.load(open('/root/.vp/EVIDENCE.schema.json'))
for f in sorted(glob.glob('/verif/evidence/*.json')):
    jsonschema.validate(json.load(open(f)), sch)
print("MANIFEST.json and", len(glob.glob('/verif/evidence/*.json')), "evidence files validate")
PY
exit $rc_all
