#!/usr/bin/env python3
"""Regenerates /verif/MANIFEST.json from the table below (single source of truth)."""
import json
import os

HERE = os.path.dirname(os.path.dirname(os.path.abspath(__file__)))

HOOK_COMMITS = ["7e56da8"]

CLAIMED = {
    "C20": dict(
        engine="gpusim", category="exploration", design_ref="DESIGN.md section 4 (C20), 3.3, 3.4, 13",
        technique="deterministic simulation of the GPU launch model: generated OKL kernels through all seven real translators, g++-compiled against dialect shims, run on an emulator built on the deterministic thread scheduler (seeded block order, block threads as simulated threads, barriers, scripted preemption), launch-model race detection on the trace, comparison with the generator's sequential reference",
        text=("Generated OKL kernels (independent iterations by construction) are translated by the real serial, openmp, cuda, hip, opencl, "
              "metal and dpcpp translators. Serial and OpenMP objects run directly (OpenMP on the simulated OpenMP runtime); GPU device code "
              "and the emitted host launcher are compiled by g++ against ~100-line shim headers per dialect and run under an emulation of "
              "the launch model (grid of blocks in seeded order, the threads of a block as simulated threads, barriers, atomics). Outputs must "
              "equal the generator's own sequential rendering of the kernel; no conflicting access pair may be unordered under the launch "
              "model's happens-before; guard zones must stay silent. Recorded findings (KNOWN_FINDINGS.txt): @atomic dropped by the OpenCL and "
              "Metal translators, general @atomic forms not compilable in the DPC++ translation, host-side variables not passed to device "
              "kernels by the launcher backends, basic and general @atomic forms not excluding each other in OpenMP."),
        note=("The GPU hardware, vendor compilers and runtimes are stubs (shims + emulator): the check decides what the *translated text* does "
              "under the documented launch model, not what a vendor compiler would do with it. Blocks run sequentially; inter-block ordering is "
              "decided on the trace. Features a backend's translator rejects are counted, not judged."),
    ),
    "C21": dict(
        engine="simrt", category="exploration", design_ref="DESIGN.md section 4 (C21), 3.3, 3.4",
        technique="deterministic simulation of OpenMP schedules: generated OKL kernels, real translators and g++, simulated OpenMP runtime (seeded team size, chunk-to-thread assignment, interleaving with scripted preemption), lockset race detection on the recorded trace, bit-exact comparison with the Serial translation",
        text=("Generated OKL kernels (independent iterations by construction) are translated by the real serial and openmp parsers and "
              "compiled by the real g++; the OpenMP object is linked against a simulated OpenMP runtime on the deterministic thread "
              "scheduler, so team size (1-16), static/runtime/dynamic chunk assignment and the interleaving at atomics, critical sections "
              "and memory accesses are seeded choices. Every configuration must give outputs bit-equal to the Serial translation's, "
              "show no unordered conflicting access pair, and keep the guard-zone checker silent."),
        note=("Race detection is lockset based on one traced execution per configuration. The schedule(runtime/dynamic) variants edit the "
              "emitted pragma text. libgomp itself is not exercised (stub)."),
    ),
    "C30": dict(
        engine="simrt", category="exploration", design_ref="DESIGN.md section 4 (C30), 3.3",
        technique="deterministic simulation of thread interleavings: real pthreads serialised by a scheduler behind the TSan compiler ABI, scripted preemption at instrumented memory accesses (race-directed from a traced dry run + random), quarantine heap checker",
        text=("libocca (ENABLE_SHARABLE_DEVICE=ON, compiled with -fsanitize=thread but linked against our own runtime) runs 2-16 simulated "
              "threads that copy and drop handles to shared objects, allocate and free, use pools, build and run kernels on one device. "
              "Exactly one thread runs at a time; every instrumented memory access, atomic and mutex operation is a scheduling point, so a "
              "preemption between a load and a store is expressible without editing libocca. Schedules come from a traced dry run (stop A "
              "at its access to X, run B past its access to X) and from random preemption points; oracles are outcome based: heap checker "
              "(double free, use after free, out of block), lock discipline (unlock of a mutex held by another thread or by nobody), crashes, "
              "and after the join handle states, contents, live-object counts and "
              "memoryAllocated() against the sequential reference model. Failures are minimised to 1-3 context switches and replayed exactly."),
        note=("Preemption only inside instrumented libocca code (out-of-line libstdc++/libc code is atomic). Each thread uses its own handle "
              "variables. maxMemoryAllocated() is not judged. Sampling of schedules, not enumeration."),
    ),
    "C01": dict(
        engine="handlesim", category="exploration", design_ref="DESIGN.md section 4 (C01), 3.2",
        technique="deterministic simulation of handle histories (single caller): seeded operation sequences on the real library under ASan next to an executable reference model, observed after every operation",
        text=("Seeded histories of copy/assign/swap/free/scope-exit/dontUseRefs over device, memory, pool, kernel and stream handles (plus the "
              "operations that create them) run on the real library (ASan build, guarded construction/destruction counters) and on a "
              "reference model of which object each handle denotes and when objects die. After every operation every handle's "
              "isInitialized(), the live backend-object counts, memoryAllocated() and the absence of ASan reports are compared; at the "
              "end all handles are dropped and only deliberately detached objects may remain. Failures are minimised by delta debugging."),
        note=("One caller thread: the simulator chooses only the operation sequence (no faults, no interleaving) - stated in the evidence. "
              "Serial and OpenMP devices only. LSan is not an oracle."),
    ),
    "C02": dict(
        engine="handlesim", category="exploration", design_ref="DESIGN.md section 4 (C02), 3.2",
        technique="deterministic simulation of memory-operation histories against a byte-array reference model (aliasing views, host aliases), ASan build",
        text=("Seeded histories of malloc/wrapMemory/slice/+/cast/clone/copyFrom/copyTo (host and device, all count/offset forms incl. "
              "negative, out-of-range and uninitialized operands) against a byte-array model with aliasing views and host-aliased "
              "buffers; every view and every aliased host array is read back after every operation; invalid requests must raise "
              "occa::exception and change nothing; crashes and ASan reports are violations."),
        note=("Validity rules are written from the statement and the public documentation. Recorded silent no-ops on uninitialized handles "
              "are tolerated inside a run (and printed as KNOWN-FINDING); everything else stops and minimises the run."),
    ),
    "C03": dict(
        engine="handlesim", category="exploration", design_ref="DESIGN.md section 4 (C03), 3.2",
        technique="deterministic simulation of pool histories: reference model of reservation contents, placement invariants read from the implementation, ASan build",
        text=("Seeded histories of reserve/release/slice/resize/shrinkToFit/setAlignment with unique patterns written into every "
              "reservation; after every operation all live views must read back their model bytes, views that share no bytes must occupy "
              "disjoint ranges inside the pool, views that share bytes must keep sharing exactly those bytes."),
        note="Offsets and pool size are read through the internal header; zero-length slices of reservations are not generated.",
    ),
    "C04": dict(
        engine="handlesim", category="exploration", design_ref="DESIGN.md section 4 (C04), 3.2",
        technique="deterministic simulation of pool histories with an accounting oracle computed from the actual reservation layout",
        text=("Same engine; after every operation reserved() must equal the measure of the union of the live reservation ranges rounded "
              "out to the alignment (computed from the actual offsets), numReservations() the number of live views, size() >= "
              "reserved(), resize below reserved() must raise and change nothing, alignment() must follow setAlignment()."),
        note="The union is only evaluated when every live view of the pool is observable through a handle slot.",
    ),
    "C05": dict(
        engine="handlesim", category="exploration", design_ref="DESIGN.md section 4 (C05), 3.2",
        technique="deterministic simulation of allocation histories with a device-accounting oracle (exact for memoryAllocated, bounded-transient interval for maxMemoryAllocated)",
        text=("Same engine; after every operation memoryAllocated() must equal live malloc/clone bytes (with or without use_host_pointer) "
              "plus live pool backing sizes, wrapped memory counting nothing; maxMemoryAllocated() must lie between the largest value "
              "observed and the largest transient the operations allow (exact for malloc/clone); zero once everything is released."),
        note="own_host_pointer and detach() are not generated.",
    ),
    "C06": dict(
        engine="procsim", category="exploration", design_ref="DESIGN.md section 4 (C06)",
        technique="deterministic simulation: seeded histories of builds in fresh simulated processes on one cache, differential oracle against an isolated empty-cache build",
        text=("Seeded histories of 6-12 builds, each a fresh simulated process, share one cache directory; configurations vary one "
              "property at a time, swap values between properties, repeat values across properties and repeat earlier builds. Each "
              "build must compute what the same configuration computes on an empty cache, distinct configurations must never "
              "resolve to one cache entry, repeats must hit the cache without compiling. Sampling of the configuration space."),
        note=("Environment fixed; clock/entropy simulated; compiler is the simcc stub (two identities) with memoised real g++ output; "
              "Serial and OpenMP. The differential oracle cannot see a configuration whose own isolated build is wrong."),
    ),
    "C07": dict(
        engine="procsim", category="exploration", design_ref="DESIGN.md section 4 (C07)",
        technique="deterministic simulation: seeded histories of header edits, include-graph changes, reverts and clock jumps interleaved with builds in fresh simulated processes; textual reference model of the current files",
        text=("Seeded histories of header edits (small content alphabet so equal contents, swaps and reverts are frequent), nested "
              "#include toggles (quoted and angle includes through okl/include_paths), reverts and clock jumps, interleaved with builds on one "
              "cache, each build in a fresh simulated process or 2-4 consecutive builds (and the edits between them, made by the process "
              "itself) in one process; file times follow the simulated clock. Every "
              "build must terminate, exit cleanly and print the vector that a textual resolution of the current files gives."),
        note=("Sequential builds only (concurrency is C09). A build still "
              "running after 200000 file-system calls counts as non-terminating."),
    ),
    "C10": dict(
        engine="procsim", category="exploration", design_ref="DESIGN.md section 4 (C10)",
        technique="deterministic simulation of the cache history (fresh / cached / cached after concurrent builds) around a reference lattice for argument compatibility",
        text=("Seeded kernel signatures and argument lists; the accept/raise decision of kernel.run() is recorded in a freshly compiling "
              "process, in a second process loading from the cache, in 2-4 concurrently building processes under the seeded scheduler "
              "and in a process loading afterwards; all vectors must equal a small reference rule and each other."),
        note=("The type lattice is an input space; simulation contributes the cache histories. Typedef and fixed-array parameters are not "
              "generated. Post-crash caches are not judged."),
    ),
    "C08": dict(
        engine="procsim", category="fault_enumeration", design_ref="DESIGN.md section 4 (C08), 3.1",
        technique="deterministic simulation: seeded crash injection (kill before/after every file-system system call, torn writes) into a real build, follow-up builds as oracle",
        text=("Real OCCA processes build kernels under a ptrace/seccomp simulator that kills the builder at a chosen file-system "
              "system call (before it, after it, or after a torn write), including inside the compiler's output writes; two "
              "fault-free follow-up processes on the same cache must succeed and compute the model's output; for file kernels the "
              "included header may be edited (or reverted) between the crash and the follow-ups, which must then run the new contents. Thorough tier "
              "enumerates every kill point x fault kind of every scenario class (finite list per scenario), quick tier samples "
              "them with a bias to in-flight writes. Fault enumeration is the right level: the quantifier is 'every kill point', "
              "and for one build that is a finite list the simulator can walk."),
        note=("Crash = SIGKILL of the process tree (no power-loss model). Kill points = system calls on paths under the cache/project "
              "tree; code between two of them is atomic with respect to a kill. Compiler executable is a stub returning memoised real "
              "g++ output. Serial and OpenMP modes only."),
    ),
    "C09": dict(
        engine="procsim", category="exploration", design_ref="DESIGN.md section 4 (C09), 3.1",
        technique="deterministic simulation: seeded interleaving of 2-16 real processes at file-system system calls (few-preemption, PCT, uniform strategies)",
        text=("2-16 real OCCA processes build the same kernels against one cache under a simulator that runs exactly one of them at a "
              "time and chooses, from the seed, who executes its next file-system system call; every process must succeed with the "
              "model's output and a follow-up process must reuse the cache without compiling; in a quarter of the scenarios some (never all) "
              "of the processes are killed mid-build and only the survivors and the follow-up are judged, and in a fifth the processes are "
              "workers fork()ed from a parent that has already built a kernel (they inherit its in-process state and are scheduled as "
              "virtual processes of their own). Seeded search over schedules; failures "
              "are minimised to a few context switches and replayed exactly."),
        note=("Interleaving granularity = system calls on paths under the simulated tree. Clock, entropy and compiler are simulated "
              "(LD_PRELOAD shim, stub compiler with memoised real g++ output). Sampling, not enumeration."),
    ),
}

NA_REASONS = {}


def main():
    props = [json.loads(l) for l in open(os.path.join(HERE, "properties.jsonl"))]
    na_default = "machinery not built yet (build phase in progress); see DESIGN.md section 2 for the plan"
    pure = {
        "C11": "pure codec (dtype/metadata JSON round trip): a function of its input, no schedule, clock, fault or second party to simulate",
        "C12": "tokenizer totality/re-lexing is a pure function of a byte string; nothing for a simulator to schedule or fault",
        "C13": "preprocessor vs cpp is a pure function of the translation unit; property-based differential testing, not simulation",
        "C14": "constant folding is pure arithmetic on literals; no schedule, clock, I/O or fault dimension",
        "C15": "print/re-parse is a pure function of the program text",
        "C16": "front-end robustness is input fuzzing; the quantifier is over byte strings, not schedules or faults",
        "C17": "loop iteration sets are index arithmetic; the visited set does not depend on any thread order or fault",
        "C18": "@tile coverage is index arithmetic on loop bounds; pure function of the inputs",
        "C19": "@dim index rewriting is a pure source-to-source function",
        "C22": "rule enforcement (accept/reject) is a pure function of the kernel text",
        "C23": "functional arrays/ranges/forLoop are quantified over inputs and configurations, not schedules or faults",
        "C24": "JSON dump/parse is a pure codec",
        "C25": "histories of one privately owned JSON value: no aliasing, I/O or concurrency; model-based property testing, not simulation",
        "C26": "property layering is a pure function of property trees",
        "C27": "hash strings/UB-freedom are pure; 'equal in every process' holds trivially for a pure function",
        "C28": "the trie is a private in-memory structure; no nondeterminism or fault surface",
        "C29": "C-API value conversions on caller-owned objects; pure functions of the call sequence",
    }
    na = []
    checks = []
    for p in props:
        pid = p["id"]
        if pid in CLAIMED:
            c = CLAIMED[pid]
            checks.append({
                "property_id": pid,
                "quick_cmd": "./check %s --tier quick" % pid,
                "thorough_cmd": "./check %s --tier thorough" % pid,
                "evidence_file": "/verif/evidence/%s.json" % pid,
                "replay_cmd_template": "./check %s --replay {path}" % pid,
                "engine": c["engine"],
                "level_claimed": {"category": c["category"], "text": c["text"], "design_ref": c["design_ref"]},
                "level_note": c["note"],
                "technique": c["technique"],
            })
        else:
            na.append({"property_id": pid, "reason": pure.get(pid, NA_REASONS.get(pid, na_default))})
    m = {
        "version": 1,
        "setup_cmd": "./setup.sh",
        "hooks": {
            "guard": "LIBOCCA_OCCA_VERIF",
            "enable": "every check configures its own CMake build directories under /verif/_work from /repo's working tree with -DCMAKE_CXX_FLAGS containing -DLIBOCCA_OCCA_VERIF (lib/build.py)",
            "baseline_off_cmd": "cmake -G Ninja -S /repo -B /repo/_build -DCMAKE_BUILD_TYPE=RelWithDebInfo -DCMAKE_CXX_FLAGS=-Wno-error -DOCCA_ENABLE_TESTS=ON && cmake --build /repo/_build && ctest --test-dir /repo/_build -j8 --timeout 900",
            "source_commits": HOOK_COMMITS,
            "add_only": True,
        },
        "engines": [
            {"name": "procsim", "path": "engines/procsim", "serves_properties": ["C06", "C07", "C08", "C09", "C10"],
             "kind_free_text": "multi-process / file-system deterministic simulator: ptrace+seccomp tracer parks real OCCA processes at file-system system calls; seeded scheduler, kill/torn-write injection, simulated clock and entropy (LD_PRELOAD), stub compiler with memoised real g++ output"},
            {"name": "handlesim", "path": "engines/handlesim", "serves_properties": ["C01", "C02", "C03", "C04", "C05"],
             "kind_free_text": "single-caller history simulator: seeded operation histories over the public C++ API next to an executable reference model, ASan build, live-object counters"},
            {"name": "gpusim", "path": "engines/gpusim", "serves_properties": ["C20"],
             "kind_free_text": "GPU launch-model emulator on simrt: dialect shim headers (CUDA, HIP, OpenCL, Metal, SYCL), stand-in for occa::kernel used by the emitted launcher, seeded block order, block threads as simulated threads, barriers; oklgen sequential reference"},
            {"name": "simrt", "path": "engines/simrt", "serves_properties": ["C20", "C21", "C30"],
             "kind_free_text": "deterministic thread scheduler behind the TSan compiler ABI: real pthreads, one runnable at a time, preemption at instrumented memory accesses and synchronisation, quarantine heap checker, simulated OpenMP runtime"},
        ],
        "checks": checks,
        "not_applicable": na,
        "notes": "See DESIGN.md. KNOWN_FINDINGS.txt lists recorded and repaired defects.",
    }
    with open(os.path.join(HERE, "MANIFEST.json"), "w") as f:
        json.dump(m, f, indent=1)
    print("claimed:", [c["property_id"] for c in checks])


if __name__ == "__main__":
    main()
