#!/bin/bash
# collect_mutant.sh <seeded-id> <worktree> [extra cmake args]
# Confirms a sub-agent's change: (1) tests pass with it, (2) demo fails with it, (3) demo passes without it.
# Stores patch.diff, demo/ and a verification log under /verif/seeded/<id>/ ; meta.json is written by hand afterwards.
set -u
ID=$1; WT=$2; shift 2
OUT=/verif/seeded/$ID
mkdir -p $OUT
git -C $WT diff > $OUT/patch.diff
rm -rf $OUT/demo; cp -r $WT/demo $OUT/demo 2>/dev/null
LOG=$OUT/verify.log
: > $LOG
B=$WT/_build
run_demo() { (cd $WT && if [ -x demo/run.sh ]; then ./demo/run.sh; else bash demo/run.sh; fi) >> $LOG 2>&1; echo $?; }
echo "== build with change" >> $LOG
cmake --build $B -j8 >> $LOG 2>&1 || { echo "BUILD FAILED" | tee -a $LOG; exit 1; }
echo "== tests with change" >> $LOG
T=$(OCCA_CACHE_DIR=$WT/_cache ctest --test-dir $B -j8 --timeout 900 2>&1 | tail -3 | tee -a $LOG | grep -c "100% tests passed")
echo "== demo with change" >> $LOG
D1=$(run_demo)
git -C $WT apply -R $OUT/patch.diff || { echo "cannot reverse" | tee -a $LOG; exit 1; }
cmake --build $B -j8 >> $LOG 2>&1
echo "== demo without change" >> $LOG
D0=$(run_demo)
git -C $WT apply $OUT/patch.diff
echo "RESULT id=$ID tests_pass_with_change=$T demo_exit_with_change=$D1 demo_exit_without_change=$D0" | tee -a $LOG
