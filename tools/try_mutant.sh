#!/bin/bash
# try_mutant.sh <seeded-id> <property> [budget_s]   -- apply seeded/<id>/patch.diff to /repo, run the quick check, revert.
ID=$1; PROP=$2; B=${3:-}
P=/verif/seeded/$ID/patch.diff
cd /verif
if ! git -C /repo apply --check $P 2>/dev/null; then echo "TRY id=$ID prop=$PROP result=PATCH-DOES-NOT-APPLY"; exit 3; fi
git -C /repo apply $P
if [ -n "$B" ]; then export VERIF_BUDGET_S=$B; fi
./check $PROP --tier quick > /verif/seeded/$ID/check-$PROP.out 2>&1
RC=$?
mkdir -p /verif/seeded/$ID/replays
for f in $(grep '^VIOLATION' /verif/seeded/$ID/check-$PROP.out | sed 's/.*replay=//'); do cp $f /verif/seeded/$ID/replays/ 2>/dev/null; done
git -C /repo checkout -- . 
echo "TRY id=$ID prop=$PROP exit=$RC $(grep -c '^VIOLATION' /verif/seeded/$ID/check-$PROP.out) violation line(s)"
grep -A2 '^VIOLATION' /verif/seeded/$ID/check-$PROP.out | cut -c1-400 | head -8
