#!/usr/bin/env python3
"""Determinism proof: every engine, N seeds, each executed twice in different worker processes and at
two worker counts; the event-log / history / step hashes must agree.  Exit 0 iff no divergence.

usage: tools/determinism.py [N] [engine ...]      engines: procsim handlesim simrt ksim gsim
"""
import json
import os
import sys

sys.path.insert(0, os.path.dirname(os.path.dirname(os.path.abspath(__file__))))
from lib import common  # noqa: E402


def _ps_task(t):
    from lib import pscheck
    mod, seed, idx = t
    import importlib
    m = importlib.import_module("lib.checks." + mod)
    scn = m.gen(seed, idx)
    out = m.execute(scn, pscheck.sandbox())
    return (mod, seed, out.get("log_hash"), [v[0] for v in out.get("violations", [])])


def _hs_task(t):
    from lib import hcheck
    prop, seed = t
    ops, fam = hcheck.generate(seed, prop)
    r = hcheck.check_history(ops)
    return (prop, seed, r["hash"] + ":" + r["state_hash"], [v[:2] for v in r["violations"]])


def _ts_task(seed):
    from lib import tcheck
    scn = tcheck.generate(seed)
    srv = tcheck.server()
    dry = srv.run(scn, [], trace=True)
    tr = srv.read_trace()
    confl = tcheck.conflicts(tr, len(scn["threads"]))
    r = common.rng(seed, "det")
    sws = tcheck.schedules(r, dry["steps"], confl, 4)
    sig = [sorted(dry["steps"].items()), len(tr)]
    for sw in sws:
        if sw:
            out = srv.run(scn, sw)
            sig.append([sorted(out["steps"].items()), out["fired"], out["status"], out["obs"][-1] if out["obs"] else None])
    return ("C30", seed, json.dumps(sig), [])


def _ks_task(seed):
    from lib import kcheck
    r = kcheck.explore_kernel(seed, 6)
    return ("C21", seed, json.dumps([r["runs"], r["steps"], r["fired"], r["distinct"], r["conflicts"]]), [v["class"] for v in r["violations"]])


def _gs_task(seed):
    from lib import gcheck
    r = gcheck.explore_kernel(seed, 4)
    return ("C20", seed, json.dumps([r["runs"], r["steps"], r["fired"], r["distinct"], sorted(r.get("rejected", {}))]),
            [(v.get("mode"), v["class"]) for v in r["violations"]])


def run(engine, n):
    from lib import pscheck
    tasks = []
    fn = None
    init = None
    if engine == "procsim":
        from lib import procsim
        procsim.ensure_engine()
        fn, init = _ps_task, pscheck._init_worker
        for mod in ("c09", "c06", "c07", "c10"):
            for i in range(n // 4):
                tasks.append((mod, common.run_seed(7, i, mod), i))
    elif engine == "handlesim":
        from lib import hcheck
        hcheck.ensure_engine()
        fn = _hs_task
        for prop in ("C01", "C02", "C03", "C04", "C05"):
            for i in range(n // 5):
                tasks.append((prop, common.run_seed(7, i, prop)))
    elif engine == "simrt":
        from lib import tcheck
        tcheck.ensure_engine()
        fn = _ts_task
        tasks = [common.run_seed(7, i, "C30") for i in range(n)]
    elif engine == "gsim":
        from lib import gcheck
        gcheck.ensure_engine()
        fn = _gs_task
        tasks = [common.run_seed(7, i, "C20") for i in range(n)]
    elif engine == "ksim":
        from lib import kcheck
        kcheck.ensure_engine()
        fn = _ks_task
        tasks = [common.run_seed(7, i, "C21") for i in range(n)]
    results = []
    for workers in (4, 16):
        pool = common.Pool(initfn=init, nworkers=workers)
        # reverse the order in the second pass so that a seed lands on a different worker with a different history
        order = tasks if workers == 4 else list(reversed(tasks))
        res = pool.map(fn, order)
        pool.close()
        if init is not None:
            pscheck.cleanup_scratch()
        results.append({(r[0], r[1]): r[2] for r in res})
    a, b = results
    bad = [k for k in a if a[k] != b.get(k)]
    print("%s: %d seeds x 2 executions (4 and 16 workers): %d divergent" % (engine, len(a), len(bad)))
    for k in bad[:5]:
        print("   DIVERGENT", k, a[k][:80], b.get(k, "")[:80])
    return len(bad)


if __name__ == "__main__":
    n = int(sys.argv[1]) if len(sys.argv) > 1 else 100
    engines = sys.argv[2:] or ["handlesim", "simrt", "ksim", "gsim", "procsim"]
    tot = 0
    for e in engines:
        tot += run(e, n)
    sys.exit(1 if tot else 0)
