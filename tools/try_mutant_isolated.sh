#!/bin/bash
# try_mutant_isolated.sh <seeded-id> <property> [budget_s] -- like try_mutant.sh, but never touches /repo: the patch is applied to a
# scratch worktree of /repo's HEAD (/tmp/mut1repo.<id>) with its own build and output directories, all removed afterwards.
ID=$1; PROP=$2; B=${3:-}
P=/verif/seeded/$ID/patch.diff
cd /verif
R=/tmp/mut1repo.$ID
git -C /repo worktree remove --force $R 2>/dev/null; rm -rf $R /tmp/mut1work.$ID /tmp/mut1out.$ID
git -C /repo worktree add --detach $R HEAD -q || exit 2
export VERIF_REPO=$R VERIF_WORK=/tmp/mut1work.$ID VERIF_OUT=/tmp/mut1out.$ID
[ -n "$B" ] && export VERIF_BUDGET_S=$B
if ! git -C $R apply --check $P 2>/dev/null; then echo "TRY id=$ID prop=$PROP result=PATCH-DOES-NOT-APPLY"; git -C /repo worktree remove --force $R; exit 3; fi
git -C $R apply $P
./check $PROP --tier quick > seeded/$ID/check-$PROP.out 2>&1
RC=$?
nv=$(grep -c '^VIOLATION' seeded/$ID/check-$PROP.out)
sig=$(grep -m1 'class/signature' seeded/$ID/check-$PROP.out | sed 's/.*signature: //' | cut -c1-140)
echo "TRY id=$ID prop=$PROP exit=$RC violations=$nv   $sig" | tee -a seeded/SUMMARY.txt
git -C /repo worktree remove --force $R
rm -rf /tmp/mut1work.$ID /tmp/mut1out.$ID
