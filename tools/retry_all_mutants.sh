#!/bin/bash
# retry_all_mutants.sh [budget_s] -- every seeded/<id>/patch.diff in turn: applied to a scratch worktree of /repo's HEAD (never to /repo
# itself), quick check of the property it breaks with its own build and output directories, reverted; one line per change in
# seeded/SUMMARY.txt.  Scratch: /tmp/mutrepo, /tmp/mutwork, /tmp/mutout (removed at the end).
B=${1:-}
cd /verif
git -C /repo worktree remove --force /tmp/mutrepo 2>/dev/null
rm -rf /tmp/mutrepo /tmp/mutwork /tmp/mutout
git -C /repo worktree add --detach /tmp/mutrepo HEAD -q || exit 1
export VERIF_REPO=/tmp/mutrepo VERIF_WORK=/tmp/mutwork VERIF_OUT=/tmp/mutout
[ -n "$B" ] && export VERIF_BUDGET_S=$B
: > seeded/SUMMARY.txt
for d in seeded/*/; do
  id=$(basename $d)
  [ -f $d/meta.json ] || continue
  prop=$(python3 -c "import json;m=json.load(open('$d/meta.json'));print(m.get('breaks_property') or m.get('property'))")
  if ! git -C /tmp/mutrepo apply --check /verif/$d/patch.diff 2>/dev/null; then
    echo "TRY id=$id prop=$prop result=PATCH-DOES-NOT-APPLY (obsolete on the repaired tree)" | tee -a seeded/SUMMARY.txt; continue
  fi
  git -C /tmp/mutrepo apply /verif/$d/patch.diff
  ./check $prop --tier quick > /tmp/mutout.$id.txt 2>&1
  rc=$?
  git -C /tmp/mutrepo checkout -- .
  nv=$(grep -c '^VIOLATION' /tmp/mutout.$id.txt)
  sig=$(grep -m1 'class/signature' /tmp/mutout.$id.txt | sed 's/.*signature: //' | cut -c1-140)
  echo "TRY id=$id prop=$prop exit=$rc violations=$nv   $sig" | tee -a seeded/SUMMARY.txt
  cp /tmp/mutout.$id.txt seeded/$id/check-$prop.out
  rm -f /tmp/mutout.$id.txt; rm -rf /tmp/mutout/replays
done
git -C /repo worktree remove --force /tmp/mutrepo
rm -rf /tmp/mutwork /tmp/mutout
