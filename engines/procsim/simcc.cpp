// simcc — compiler stub for procsim (the only stubbed component on the build path).
//
//   simcc [flags] <source> -o <out> [more flags]
//
// 1. reads the source (and every quoted #include it can resolve, recursively) — these reads
//    are ordinary system calls and therefore scheduling points when they fall in the
//    simulated tree;
// 2. looks (argument list without the -o path, source + include bytes, stub identity,
//    SIM_ENV_D) up in a memo directory outside the simulated tree; on a miss runs the real
//    compiler (SIMCC_REAL, default /usr/bin/g++) and stores its output;
// 3. writes the memoised bytes to <out> in SIMCC_CHUNKS (default 3) write(2) calls, so a
//    kill or a preemption can fall inside "the compiler writing its output".
//
// Invoked through a name ending in "-b" it adds -DSIM_COMPILER_ID=2 (otherwise =1); if the
// environment has SIM_ENV_D it adds -DSIM_ENV_D=<value>: that is how the *compiler* and the
// *compiler_env_script* properties become observable in what a kernel computes.
#include <cerrno>
#include <cstdint>
#include <cstdio>
#include <cstdlib>
#include <cstring>
#include <fcntl.h>
#include <set>
#include <string>
#include <sys/stat.h>
#include <sys/wait.h>
#include <unistd.h>
#include <vector>

static bool readFile(const std::string &p, std::string &out) {
  int fd = open(p.c_str(), O_RDONLY);
  if (fd < 0) return false;
  char buf[65536];
  ssize_t n;
  out.clear();
  while ((n = read(fd, buf, sizeof(buf))) > 0) out.append(buf, n);
  close(fd);
  return true;
}

static uint64_t fnv(const std::string &s, uint64_t h) {
  for (unsigned char c : s) { h ^= c; h *= 0x100000001B3ull; }
  return h;
}

static std::string dirOf(const std::string &p) {
  size_t i = p.rfind('/');
  return i == std::string::npos ? std::string(".") : p.substr(0, i);
}

static void scanIncludes(const std::string &file, const std::string &text,
                         const std::vector<std::string> &idirs,
                         std::set<std::string> &seen, std::string &acc, int depth) {
  if (depth > 16) return;
  size_t pos = 0;
  while (pos < text.size()) {
    size_t eol = text.find('\n', pos);
    if (eol == std::string::npos) eol = text.size();
    size_t i = pos;
    while (i < eol && (text[i] == ' ' || text[i] == '\t')) ++i;
    if (i < eol && text[i] == '#') {
      ++i;
      while (i < eol && (text[i] == ' ' || text[i] == '\t')) ++i;
      if (text.compare(i, 7, "include") == 0) {
        i += 7;
        while (i < eol && (text[i] == ' ' || text[i] == '\t')) ++i;
        if (i < eol && text[i] == '"') {
          size_t j = text.find('"', i + 1);
          if (j != std::string::npos && j < eol) {
            const std::string name = text.substr(i + 1, j - i - 1);
            std::vector<std::string> cands;
            if (!name.empty() && name[0] == '/') cands.push_back(name);
            else {
              cands.push_back(dirOf(file) + "/" + name);
              for (const std::string &d : idirs) cands.push_back(d + "/" + name);
            }
            bool found = false;
            for (const std::string &c : cands) {
              std::string body;
              if (readFile(c, body)) {
                found = true;
                if (seen.insert(c).second) {
                  acc += "\n@@include " + name + "\n" + body;
                  scanIncludes(c, body, idirs, seen, acc, depth + 1);
                }
                break;
              }
            }
            if (!found) acc += "\n@@unresolved " + name + "\n";
          }
        }
      }
    }
    pos = eol + 1;
  }
}

int main(int argc, char **argv) {
  std::string self = argv[0];
  const bool idB = self.size() >= 2 && self.compare(self.size() - 2, 2, "-b") == 0;
  const char *envD = getenv("SIM_ENV_D");
  const char *real = getenv("SIMCC_REAL");
  if (!real) real = "/usr/bin/g++";
  const char *memo = getenv("SIMCC_MEMO");
  if (!memo) { fprintf(stderr, "simcc: SIMCC_MEMO not set\n"); return 97; }
  int chunks = getenv("SIMCC_CHUNKS") ? atoi(getenv("SIMCC_CHUNKS")) : 3;
  if (chunks < 1) chunks = 1;

  std::vector<std::string> args;       // what the real compiler gets (without -o X)
  std::vector<std::string> idirs;
  std::string src, out;
  for (int i = 1; i < argc; ++i) {
    std::string a = argv[i];
    if (a == "-o" && i + 1 < argc) { out = argv[++i]; continue; }
    if (a.size() > 2 && a.compare(0, 2, "-I") == 0) idirs.push_back(a.substr(2));
    if (a.size() && a[0] != '-' && src.empty()) {
      size_t d = a.rfind('.');
      std::string ext = d == std::string::npos ? "" : a.substr(d);
      if (ext == ".cpp" || ext == ".c" || ext == ".cc" || ext == ".cxx" || ext == ".okl" || ext == ".C") {
        src = a;
        args.push_back("@SRC@");
        continue;
      }
    }
    args.push_back(a);
  }
  if (src.empty() || out.empty()) {
    // not a compile we understand (e.g. --version): hand over to the real compiler
    std::vector<char*> av;
    av.push_back((char*) real);
    for (int i = 1; i < argc; ++i) av.push_back(argv[i]);
    av.push_back(0);
    execv(real, av.data());
    return 98;
  }
  args.push_back(idB ? "-DSIM_COMPILER_ID=2" : "-DSIM_COMPILER_ID=1");
  if (envD) args.push_back(std::string("-DSIM_ENV_D=") + envD);

  std::string text;
  if (!readFile(src, text)) {
    fprintf(stderr, "simcc: fatal error: %s: No such file or directory\n", src.c_str());
    return 1;
  }
  std::string acc = text;
  std::set<std::string> seen;
  scanIncludes(src, text, idirs, seen, acc, 0);

  uint64_t h1 = 0xcbf29ce484222325ull, h2 = 0x84222325cbf29ce4ull;
  for (const std::string &a : args) { h1 = fnv(a, h1); h1 = fnv("\x01", h1); h2 = fnv(a, h2 ^ 0x55); }
  h1 = fnv(acc, h1); h2 = fnv(acc, h2 ^ 0x77);
  // language of the source as the real compiler will see it: keep the extension
  size_t d = src.rfind('.');
  const std::string ext = src.substr(d);
  h1 = fnv(ext, h1);
  char key[64];
  snprintf(key, sizeof(key), "%016llx%016llx", (unsigned long long) h1, (unsigned long long) h2);
  const std::string memoFile = std::string(memo) + "/" + key + ".bin";

  std::string bin;
  if (!readFile(memoFile, bin)) {
    // miss: run the real compiler on a private copy of the source directory view.
    // The source is compiled in place (so relative includes resolve as they would for a
    // real compiler); output goes to the memo directory.
    char tmpName[256];
    snprintf(tmpName, sizeof(tmpName), "%s/%s.%d.tmp", memo, key, (int) getpid());
    std::vector<std::string> real_args;
    real_args.push_back(real);
    for (const std::string &a : args) real_args.push_back(a == "@SRC@" ? src : a);
    real_args.push_back("-o");
    real_args.push_back(tmpName);
    std::vector<char*> av;
    for (std::string &a : real_args) av.push_back((char*) a.c_str());
    av.push_back(0);
    pid_t pid = fork();
    if (pid == 0) { execv(real, av.data()); _exit(99); }
    int st = 0;
    waitpid(pid, &st, 0);
    if (!WIFEXITED(st) || WEXITSTATUS(st) != 0) {
      unlink(tmpName);
      return WIFEXITED(st) ? WEXITSTATUS(st) : 1;
    }
    if (!readFile(tmpName, bin)) return 96;
    rename(tmpName, memoFile.c_str());
  }

  int fd = open(out.c_str(), O_WRONLY | O_CREAT | O_TRUNC, 0755);
  if (fd < 0) { fprintf(stderr, "simcc: cannot open %s: %s\n", out.c_str(), strerror(errno)); return 1; }
  size_t off = 0;
  const size_t per = bin.size() / chunks + 1;
  while (off < bin.size()) {
    size_t n = std::min(per, bin.size() - off);
    ssize_t w = write(fd, bin.data() + off, n);
    if (w <= 0) { close(fd); return 1; }
    off += w;
  }
  close(fd);
  return 0;
}
