// procsim — deterministic multi-process / file-system simulator (ptrace + seccomp).
//
// One invocation simulates one *group* of virtual processes (vprocs) that run
// concurrently against the directory tree ROOT.  Exactly one task of the whole
// simulation executes at any time; every system call that names a path under ROOT is
// a scheduling point at which the vproc is parked and the seeded scheduler decides
// who moves next, whether the vproc is killed there, and how much of a write lands.
//
// usage: procsim <scenario-file>
//
// scenario file (line based, written by the Python driver):
//   root <dir>                 simulated tree (scheduling points = syscalls on paths under it)
//   out <prefix>               writes <prefix>.log (event log) and <prefix>.res (results)
//   seed <u64>
//   clockfile <path>           8-byte file mmapped by libsimenv.so in the vprocs
//   clock0 <ns>  tick <ns>     simulated clock = clock0 + gstep*tick
//   maxsteps <n>               bound on scheduling points (exceeded => inconclusive)
//   strategy <name> [args]     uniform | rtb <p_permille> <wmult> | pct <d> <est> | script
//   switch <decision#> <vproc> (script strategy) explicit choices; default = stay, else lowest id
//   transparent <path>         execve of this path makes the task and its descendants invisible
//   vproc <id> <delay> <cwd> <stdout> <stderr> <exe> <arg> -- K=V K=V ...
//   fault <vproc> <vstep> <kind> [permille]     kind = killbefore | killafter | torn
//
// Event log line:  <gstep> v<id> <vstep> <w> <desc> = <result>
#include <algorithm>
#include <cerrno>
#include <climits>
#include <csignal>
#include <cstdarg>
#include <cstddef>
#include <cstdint>
#include <cstdio>
#include <cstdlib>
#include <cstring>
#include <fcntl.h>
#include <fstream>
#include <linux/audit.h>
#include <linux/filter.h>
#include <linux/seccomp.h>
#include <deque>
#include <map>
#include <set>
#include <sstream>
#include <string>
#include <sys/mman.h>
#include <sys/stat.h>
#include <sys/personality.h>
#include <sys/prctl.h>
#include <sys/ptrace.h>
#include <sys/syscall.h>
#include <sys/uio.h>
#include <sys/user.h>
#include <sys/wait.h>
#include <unistd.h>
#include <vector>

static void die(const char *fmt, ...) {
  va_list ap; va_start(ap, fmt);
  fprintf(stderr, "procsim: engine error: ");
  vfprintf(stderr, fmt, ap);
  fprintf(stderr, "\n");
  va_end(ap);
  _exit(2);   // PTRACE_O_EXITKILL takes the tracees down with us
}

//---[ PRNG ]---------------------------------------------------------------
struct Rng {
  uint64_t s[4];
  static uint64_t splitmix(uint64_t &x) {
    uint64_t z = (x += 0x9E3779B97F4A7C15ull);
    z = (z ^ (z >> 30)) * 0xBF58476D1CE4E5B9ull;
    z = (z ^ (z >> 27)) * 0x94D049BB133111EBull;
    return z ^ (z >> 31);
  }
  void seed(uint64_t x) { for (int i = 0; i < 4; ++i) s[i] = splitmix(x); }
  static uint64_t rotl(uint64_t x, int k) { return (x << k) | (x >> (64 - k)); }
  uint64_t next() {
    const uint64_t r = rotl(s[1] * 5, 7) * 9, t = s[1] << 17;
    s[2] ^= s[0]; s[3] ^= s[1]; s[1] ^= s[2]; s[0] ^= s[3]; s[2] ^= t; s[3] = rotl(s[3], 45);
    return r;
  }
  uint64_t below(uint64_t n) { return n ? next() % n : 0; }
  bool permille(uint64_t p) { return below(1000) < p; }
};

//---[ Scenario ]-----------------------------------------------------------
struct Fault { std::string kind; int permille; };

struct VProc {
  int id = 0;
  long delay = 0;
  std::string cwd, out, err, exe;
  std::vector<std::string> args, env;
  // runtime
  bool started = false, done = false, parked = false, killed = false;
  pid_t leader = 0;
  pid_t parkedTid = 0;
  std::set<pid_t> tasks;
  std::set<pid_t> transparentTasks;
  long vstep = 0;
  int exitStatus = -1, termSig = 0;
  bool inWrite = false;
  int compilerExecs = 0, realCompiles = 0;
  std::string desc;          // description of the parked syscall
  long sysno = -1;
  std::map<int, Fault> faults;
  long priority = 0;         // pct
  std::deque<std::pair<pid_t, int> > deferred;   // ptrace stops of this vproc's tasks that arrived while another vproc ran
  int promoteForks = 0;      // the next N fork()s of the leader become virtual processes of their own (forked workers)
  bool forkedWorker = false; // created by such a fork; parked at birth with the pseudo system call "forked"
  int parentV = -1;
};

static std::string ROOT, OUT, CLOCKFILE, STRATEGY = "rtb";
static std::vector<std::string> transparentPaths, countedExecs;
static uint64_t SEED = 1, CLOCK0 = 0, TICK = 1000000;
static long MAXSTEPS = 4000;
static long sargs[4] = {10, 8, 0, 0};
static std::deque<VProc> V;    // (deque: references stay valid when forked workers are appended)
static std::map<long, int> switches;
static std::map<pid_t, int> task2v;
static std::set<pid_t> pendingStops;
static volatile uint64_t *clockPage = 0;
static FILE *logf = 0;
static Rng rng;
static long gstep = 0;
static bool inconclusive = false;

static std::vector<std::string> splitWs(const std::string &l) {
  std::vector<std::string> r; std::istringstream is(l); std::string t;
  while (is >> t) r.push_back(t);
  return r;
}

static void loadScenario(const char *file) {
  std::ifstream in(file);
  if (!in) die("cannot read scenario %s", file);
  std::string line;
  while (std::getline(in, line)) {
    std::vector<std::string> t = splitWs(line);
    if (t.empty() || t[0][0] == '#') continue;
    const std::string &k = t[0];
    if (k == "root") { ROOT = t[1]; while (ROOT.size() > 1 && ROOT.back() == '/') ROOT.pop_back(); }
    else if (k == "out") OUT = t[1];
    else if (k == "seed") SEED = strtoull(t[1].c_str(), 0, 10);
    else if (k == "clockfile") CLOCKFILE = t[1];
    else if (k == "clock0") CLOCK0 = strtoull(t[1].c_str(), 0, 10);
    else if (k == "tick") TICK = strtoull(t[1].c_str(), 0, 10);
    else if (k == "maxsteps") MAXSTEPS = atol(t[1].c_str());
    else if (k == "transparent") transparentPaths.push_back(t[1]);
    else if (k == "countexec") countedExecs.push_back(t[1]);
    else if (k == "strategy") {
      STRATEGY = t[1];
      for (size_t i = 2; i < t.size() && i < 6; ++i) sargs[i - 2] = atol(t[i].c_str());
    }
    else if (k == "switch") switches[atol(t[1].c_str())] = atoi(t[2].c_str());
    else if (k == "vproc") {
      VProc v;
      v.id = atoi(t[1].c_str()); v.delay = atol(t[2].c_str());
      v.cwd = t[3]; v.out = t[4]; v.err = t[5]; v.exe = t[6];
      size_t i = 7;
      for (; i < t.size() && t[i] != "--"; ++i) v.args.push_back(t[i]);
      for (++i; i < t.size(); ++i) v.env.push_back(t[i]);
      if ((int) V.size() != v.id) die("vproc ids must be 0..n-1 in order");
      V.push_back(v);
    }
    else if (k == "fault") {
      Fault f; f.kind = t[3]; f.permille = t.size() > 4 ? atoi(t[4].c_str()) : 500;
      int vi = atoi(t[1].c_str());
      if (vi < 0 || vi >= (int) V.size()) die("fault for unknown vproc");
      V[vi].faults[atoi(t[2].c_str())] = f;
    }
    else die("unknown scenario key %s", k.c_str());
  }
  if (ROOT.empty() || OUT.empty() || V.empty()) die("incomplete scenario");
}

//---[ seccomp filter ]-----------------------------------------------------
static const int trapped[] = {
  SYS_read, SYS_write, SYS_open, SYS_stat, SYS_lstat, SYS_pread64, SYS_pwrite64, SYS_writev,
  SYS_access, SYS_execve, SYS_truncate, SYS_ftruncate, SYS_getdents, SYS_getdents64,
  SYS_rename, SYS_mkdir, SYS_rmdir, SYS_creat, SYS_link, SYS_unlink, SYS_symlink, SYS_chmod,
  SYS_fchmod, SYS_openat, SYS_mkdirat, SYS_newfstatat, SYS_unlinkat, SYS_renameat, SYS_linkat,
  SYS_symlinkat, SYS_fchmodat, SYS_faccessat, SYS_renameat2, SYS_statx, SYS_fsync, SYS_fdatasync,
  SYS_execveat, SYS_copy_file_range, SYS_sendfile,
#ifdef SYS_faccessat2
  SYS_faccessat2,
#endif
#ifdef SYS_openat2
  SYS_openat2,
#endif
};

static void installFilter() {
  std::vector<sock_filter> f;
  f.push_back(BPF_STMT(BPF_LD | BPF_W | BPF_ABS, offsetof(struct seccomp_data, arch)));
  f.push_back(BPF_JUMP(BPF_JMP | BPF_JEQ | BPF_K, AUDIT_ARCH_X86_64, 1, 0));
  f.push_back(BPF_STMT(BPF_RET | BPF_K, SECCOMP_RET_ALLOW));
  f.push_back(BPF_STMT(BPF_LD | BPF_W | BPF_ABS, offsetof(struct seccomp_data, nr)));
  const int n = sizeof(trapped) / sizeof(trapped[0]);
  for (int i = 0; i < n; ++i) {
    // if nr == trapped[i] jump to TRACE (at distance n-i from next), else fall through
    f.push_back(BPF_JUMP(BPF_JMP | BPF_JEQ | BPF_K, (unsigned) trapped[i], (unsigned char) (n - i), 0));
  }
  f.push_back(BPF_STMT(BPF_RET | BPF_K, SECCOMP_RET_ALLOW));
  f.push_back(BPF_STMT(BPF_RET | BPF_K, SECCOMP_RET_TRACE));
  sock_fprog prog;
  prog.len = (unsigned short) f.size();
  prog.filter = f.data();
  if (prctl(PR_SET_NO_NEW_PRIVS, 1, 0, 0, 0)) _exit(111);
  if (prctl(PR_SET_SECCOMP, SECCOMP_MODE_FILTER, &prog)) _exit(112);
}

//---[ tracee inspection ]--------------------------------------------------
static std::string readString(pid_t tid, unsigned long addr) {
  std::string s;
  if (!addr) return s;
  char buf[256];
  for (int it = 0; it < 32; ++it) {
    // do not cross a page boundary in one read (the next page may be unmapped)
    size_t want = sizeof(buf);
    size_t toPage = 4096 - ((addr + s.size()) & 4095);
    if (want > toPage) want = toPage;
    iovec l = { buf, want }, r = { (void*) (addr + s.size()), want };
    ssize_t n = process_vm_readv(tid, &l, 1, &r, 1, 0);
    if (n <= 0) break;
    for (ssize_t i = 0; i < n; ++i) {
      if (!buf[i]) return s;
      s.push_back(buf[i]);
    }
  }
  return s;
}

static std::string readLink(const std::string &p) {
  char buf[PATH_MAX];
  ssize_t n = readlink(p.c_str(), buf, sizeof(buf) - 1);
  if (n < 0) return "";
  buf[n] = 0;
  return buf;
}

static std::string normalise(const std::string &p) {
  std::vector<std::string> parts;
  size_t i = 0;
  while (i < p.size()) {
    size_t j = p.find('/', i);
    if (j == std::string::npos) j = p.size();
    std::string c = p.substr(i, j - i);
    if (c == "..") { if (!parts.empty()) parts.pop_back(); }
    else if (!c.empty() && c != ".") parts.push_back(c);
    i = j + 1;
  }
  std::string r;
  for (const std::string &c : parts) r += "/" + c;
  return r.empty() ? "/" : r;
}

static std::string absPath(pid_t tid, long dirfd, const std::string &path) {
  if (!path.empty() && path[0] == '/') return normalise(path);
  std::string base;
  char link[64];
  if ((int) dirfd == AT_FDCWD) snprintf(link, sizeof(link), "/proc/%d/cwd", tid);
  else snprintf(link, sizeof(link), "/proc/%d/fd/%ld", tid, dirfd);
  base = readLink(link);
  if (path.empty()) return normalise(base);
  return normalise(base + "/" + path);
}

static std::string fdPath(pid_t tid, long fd) {
  char link[64];
  snprintf(link, sizeof(link), "/proc/%d/fd/%ld", tid, fd);
  std::string p = readLink(link);
  // deleted files show as "path (deleted)"
  size_t d = p.rfind(" (deleted)");
  if (d != std::string::npos && d + 10 == p.size()) p = p.substr(0, d);
  return p;
}

static bool underRoot(const std::string &p) {
  return p.size() > ROOT.size() && p.compare(0, ROOT.size(), ROOT) == 0 && p[ROOT.size()] == '/';
}

static std::string rel(const std::string &p) {
  return underRoot(p) ? p.substr(ROOT.size() + 1) : p;
}

// Classify the system call the task is stopped at.  Returns true when it is a scheduling
// point (names a path under ROOT), with a description in `desc`.
static bool classify(pid_t tid, const user_regs_struct &r, std::string &desc, bool &isExecOfTransparent,
                     bool &opensForWrite, bool &isCountedExec) {
  isCountedExec = false;
  const long nr = (long) r.orig_rax;
  const unsigned long a0 = r.rdi, a1 = r.rsi, a2 = r.rdx, a3 = r.r10;
  isExecOfTransparent = false;
  opensForWrite = false;
  std::string p, p2;
  char extra[96]; extra[0] = 0;
  const char *name = "?";
  switch (nr) {
    case SYS_read: case SYS_pread64:
      name = nr == SYS_read ? "read" : "pread"; p = fdPath(tid, (long) a0);
      break;
    case SYS_write: case SYS_pwrite64: case SYS_writev:
      name = nr == SYS_writev ? "writev" : "write"; p = fdPath(tid, (long) a0);
      if (nr != SYS_writev) snprintf(extra, sizeof(extra), " n=%lu", a2);
      break;
    case SYS_fsync: case SYS_fdatasync: name = "fsync"; p = fdPath(tid, (long) a0); break;
    case SYS_ftruncate: name = "ftruncate"; p = fdPath(tid, (long) a0); snprintf(extra, sizeof(extra), " len=%lu", a1); break;
    case SYS_fchmod: name = "fchmod"; p = fdPath(tid, (long) a0); break;
    case SYS_getdents: case SYS_getdents64: name = "getdents"; p = fdPath(tid, (long) a0); break;
    case SYS_sendfile: name = "sendfile"; p = fdPath(tid, (long) a0); p2 = fdPath(tid, (long) a1); break;
    case SYS_copy_file_range: name = "copy_file_range"; p = fdPath(tid, (long) a2); p2 = fdPath(tid, (long) a0); break;
    case SYS_open: case SYS_creat: {
      name = "open"; p = absPath(tid, AT_FDCWD, readString(tid, a0));
      unsigned long fl = nr == SYS_creat ? (O_CREAT | O_WRONLY | O_TRUNC) : a1;
      snprintf(extra, sizeof(extra), " fl=%lo", fl & (O_ACCMODE | O_CREAT | O_TRUNC | O_APPEND | O_EXCL));
      opensForWrite = (fl & O_ACCMODE) != O_RDONLY;
      break;
    }
    case SYS_openat:
#ifdef SYS_openat2
    case SYS_openat2:
#endif
    {
      name = "open"; p = absPath(tid, (long) (int) a0, readString(tid, a1));
      unsigned long fl = a2;
#ifdef SYS_openat2
      if (nr == SYS_openat2) {
        uint64_t how[3] = {0, 0, 0};
        iovec l = { how, sizeof(how) }, rr = { (void*) a2, sizeof(how) };
        process_vm_readv(tid, &l, 1, &rr, 1, 0);
        fl = how[0];
      }
#endif
      snprintf(extra, sizeof(extra), " fl=%lo", fl & (O_ACCMODE | O_CREAT | O_TRUNC | O_APPEND | O_EXCL));
      opensForWrite = (fl & O_ACCMODE) != O_RDONLY;
      break;
    }
    case SYS_stat: case SYS_lstat: case SYS_access:
      name = "stat"; p = absPath(tid, AT_FDCWD, readString(tid, a0)); break;
    case SYS_newfstatat: case SYS_statx: case SYS_faccessat:
#ifdef SYS_faccessat2
    case SYS_faccessat2:
#endif
    {
      name = "stat";
      std::string s = readString(tid, a1);
      if (s.empty()) { name = "fstat"; p = fdPath(tid, (long) (int) a0); }    // AT_EMPTY_PATH
      else p = absPath(tid, (long) (int) a0, s);
      break;
    }
    case SYS_execve:
      name = "exec"; p = absPath(tid, AT_FDCWD, readString(tid, a0));
      for (const std::string &t : transparentPaths) if (p == t) isExecOfTransparent = true;
      for (const std::string &t : countedExecs) if (p == t) isCountedExec = true;
      break;
    case SYS_execveat: name = "exec"; p = absPath(tid, (long) (int) a0, readString(tid, a1)); break;
    case SYS_truncate: name = "truncate"; p = absPath(tid, AT_FDCWD, readString(tid, a0)); break;
    case SYS_rename: name = "rename"; p = absPath(tid, AT_FDCWD, readString(tid, a0)); p2 = absPath(tid, AT_FDCWD, readString(tid, a1)); break;
    case SYS_renameat: case SYS_renameat2:
      name = "rename"; p = absPath(tid, (long) (int) a0, readString(tid, a1)); p2 = absPath(tid, (long) (int) a2, readString(tid, a3)); break;
    case SYS_link: name = "link"; p = absPath(tid, AT_FDCWD, readString(tid, a0)); p2 = absPath(tid, AT_FDCWD, readString(tid, a1)); break;
    case SYS_linkat: name = "link"; p = absPath(tid, (long) (int) a0, readString(tid, a1)); p2 = absPath(tid, (long) (int) a2, readString(tid, a3)); break;
    case SYS_symlink: name = "symlink"; p = absPath(tid, AT_FDCWD, readString(tid, a1)); break;
    case SYS_symlinkat: name = "symlink"; p = absPath(tid, (long) (int) a1, readString(tid, a2)); break;
    case SYS_mkdir: name = "mkdir"; p = absPath(tid, AT_FDCWD, readString(tid, a0)); break;
    case SYS_mkdirat: name = "mkdir"; p = absPath(tid, (long) (int) a0, readString(tid, a1)); break;
    case SYS_rmdir: name = "rmdir"; p = absPath(tid, AT_FDCWD, readString(tid, a0)); break;
    case SYS_unlink: name = "unlink"; p = absPath(tid, AT_FDCWD, readString(tid, a0)); break;
    case SYS_unlinkat: name = "unlink"; p = absPath(tid, (long) (int) a0, readString(tid, a1)); break;
    case SYS_chmod: name = "chmod"; p = absPath(tid, AT_FDCWD, readString(tid, a0)); break;
    case SYS_fchmodat: name = "chmod"; p = absPath(tid, (long) (int) a0, readString(tid, a1)); break;
    default: return false;
  }
  const bool in1 = underRoot(p), in2 = !p2.empty() && underRoot(p2);
  if (!in1 && !in2) { opensForWrite = false; return false; }
  desc = name;
  desc += " " + rel(p);
  if (!p2.empty()) desc += " -> " + rel(p2);
  desc += extra;
  return true;
}

//---[ process control ]----------------------------------------------------
static void spawn(VProc &v) {
  pid_t pid = fork();
  if (pid < 0) die("fork failed");
  if (pid == 0) {
    setpgid(0, 0);
    personality(ADDR_NO_RANDOMIZE);
    if (chdir(v.cwd.c_str())) _exit(113);
    int fo = open(v.out.c_str(), O_WRONLY | O_CREAT | O_TRUNC, 0644);
    int fe = open(v.err.c_str(), O_WRONLY | O_CREAT | O_TRUNC, 0644);
    int fi = open("/dev/null", O_RDONLY);
    if (fo < 0 || fe < 0 || fi < 0) _exit(114);
    dup2(fi, 0); dup2(fo, 1); dup2(fe, 2);
    close(fo); close(fe); close(fi);
    clearenv();
    for (const std::string &e : v.env) putenv(strdup(e.c_str()));
    std::vector<char*> av;
    av.push_back((char*) v.exe.c_str());
    for (std::string &a : v.args) av.push_back((char*) a.c_str());
    av.push_back(0);
    if (ptrace(PTRACE_TRACEME, 0, 0, 0)) _exit(115);
    raise(SIGSTOP);
    installFilter();
    execv(v.exe.c_str(), av.data());
    _exit(116);
  }
  setpgid(pid, pid);
  int st = 0;
  if (waitpid(pid, &st, __WALL) != pid || !WIFSTOPPED(st)) die("child did not stop");
  const long opts = PTRACE_O_TRACESECCOMP | PTRACE_O_TRACEFORK | PTRACE_O_TRACEVFORK | PTRACE_O_TRACECLONE |
                    PTRACE_O_TRACEEXEC | PTRACE_O_EXITKILL | PTRACE_O_TRACESYSGOOD;
  if (ptrace(PTRACE_SETOPTIONS, pid, 0, opts)) die("PTRACE_SETOPTIONS: %s", strerror(errno));
  v.leader = pid;
  v.tasks.insert(pid);
  task2v[pid] = v.id;
  v.started = true;
  if (ptrace(PTRACE_CONT, pid, 0, 0)) die("PTRACE_CONT: %s", strerror(errno));
}

static void forget(VProc &v, pid_t tid) {
  v.tasks.erase(tid);
  v.transparentTasks.erase(tid);
  task2v.erase(tid);
}

// Consume ptrace events of vproc v (the only thing running) until one of its tasks parks at a
// scheduling point or the vproc is finished.  If `exitOf` is non-zero, return as soon as that
// task reaches its syscall-exit stop (result in *exitResult) without resuming it.
static void runUntilPark(VProc &v, pid_t exitOf = 0, long *exitResult = 0, bool *gotExit = 0) {
  if (gotExit) *gotExit = false;
  while (true) {
    if (v.tasks.empty()) { v.done = true; v.parked = false; return; }
    int st = 0;
    pid_t tid = 0;
    if (!exitOf && !v.deferred.empty()) {
      // a stop of one of this vproc's tasks that was seen while another vproc ran (see below): handle it now
      tid = v.deferred.front().first; st = v.deferred.front().second;
      v.deferred.pop_front();
      if (!v.tasks.count(tid)) continue;
    } else {
      tid = waitpid(-1, &st, __WALL);
      if (tid < 0) {
        if (errno == EINTR) continue;
        if (errno == ECHILD) { v.done = true; v.parked = false; v.tasks.clear(); return; }
        die("waitpid: %s", strerror(errno));
      }
    }
    std::map<pid_t, int>::iterator it = task2v.find(tid);
    if (it == task2v.end()) {
      if (WIFSTOPPED(st)) pendingStops.insert(tid);   // child seen before its parent's fork event
      continue;
    }
    if (it->second != v.id) {
      VProc &o = V[it->second];
      if (o.killed || o.done) {
        // a straggler of a vproc that was killed by a fault (e.g. a child whose fork was in flight when the
        // SIGKILLs went out): it must not run on; finish it off and forget it
        if (WIFEXITED(st) || WIFSIGNALED(st)) { o.tasks.erase(tid); task2v.erase(tid); }
        else { kill(tid, SIGKILL); ptrace(PTRACE_CONT, tid, 0, 0); }
        continue;
      }
      // A task of a vproc that is not running.  A vproc is "parked" as soon as ONE of its tasks stops at a scheduling
      // point; a sibling task (e.g. the builder between fork() and the read() it blocks in) may still be on its way to
      // a blocking call and can hit a traced system call meanwhile.  Its stop is kept (the task stays stopped) and is
      // handled when its own vproc runs next, so nothing it does under the simulated tree escapes the schedule.
      if (WIFEXITED(st) || WIFSIGNALED(st)) {
        if (tid == o.leader) { if (WIFEXITED(st)) o.exitStatus = WEXITSTATUS(st); else o.termSig = WTERMSIG(st); }
        o.tasks.erase(tid); o.transparentTasks.erase(tid); task2v.erase(tid);
        continue;
      }
      if (WIFSTOPPED(st)) { o.deferred.push_back(std::make_pair(tid, st)); continue; }
      continue;
    }
    if (WIFEXITED(st) || WIFSIGNALED(st)) {
      if (tid == v.leader) {
        if (WIFEXITED(st)) v.exitStatus = WEXITSTATUS(st); else v.termSig = WTERMSIG(st);
      }
      forget(v, tid);
      if (tid == exitOf) { if (gotExit) *gotExit = false; exitOf = 0; }
      continue;
    }
    if (!WIFSTOPPED(st)) continue;
    const int sig = WSTOPSIG(st);
    const int event = (st >> 16) & 0xff;
    if (sig == (SIGTRAP | 0x80)) {
      // syscall-exit stop (we only ever ask for these after a parked syscall)
      if (tid == exitOf) {
        user_regs_struct r;
        if (ptrace(PTRACE_GETREGS, tid, 0, &r)) die("GETREGS at exit stop");
        if (exitResult) *exitResult = (long) r.rax;
        if (gotExit) *gotExit = true;
        return;
      }
      ptrace(PTRACE_CONT, tid, 0, 0);
      continue;
    }
    if (sig == SIGTRAP && event == PTRACE_EVENT_SECCOMP) {
      user_regs_struct r;
      if (ptrace(PTRACE_GETREGS, tid, 0, &r)) die("GETREGS: %s", strerror(errno));
      std::string desc; bool execT = false, ow = false, execC = false;
      const bool transparent = v.transparentTasks.count(tid) > 0;
      bool point = false;
      if (!transparent) {
        point = classify(tid, r, desc, execT, ow, execC);
        if (execT) { v.transparentTasks.insert(tid); v.realCompiles++; }
        if (execC) v.compilerExecs++;
      }
      if (!point) { ptrace(PTRACE_CONT, tid, 0, 0); continue; }
      {
        // "open <root>/.sim-fork-workers-<N>": the workload announces that its next N fork()s create worker processes
        // which are to be scheduled as virtual processes of their own (state inherited through fork, own schedule)
        size_t mk = desc.find(".sim-fork-workers-");
        if (mk != std::string::npos && desc.compare(0, 5, "open ") == 0) {
          v.promoteForks = atoi(desc.c_str() + mk + 18);
          ptrace(PTRACE_CONT, tid, 0, 0);
          continue;
        }
      }
      v.parked = true; v.parkedTid = tid; v.desc = desc; v.sysno = (long) r.orig_rax;
      return;
    }
    if (sig == SIGTRAP && (event == PTRACE_EVENT_FORK || event == PTRACE_EVENT_VFORK || event == PTRACE_EVENT_CLONE)) {
      unsigned long nt = 0;
      ptrace(PTRACE_GETEVENTMSG, tid, 0, &nt);
      pid_t c = (pid_t) nt;
      if (v.promoteForks > 0 && tid == v.leader && event == PTRACE_EVENT_FORK) {
        // a forked worker: a new virtual process, parked at birth (it stays in its initial stop until it is picked)
        --v.promoteForks;
        if (!pendingStops.erase(c)) {
          int cst = 0;
          if (waitpid(c, &cst, __WALL) != c || !WIFSTOPPED(cst)) die("forked worker did not stop");
        }
        VProc nv;
        nv.id = (int) V.size();
        nv.leader = c;
        nv.tasks.insert(c);
        nv.started = true;
        nv.forkedWorker = true;
        nv.parentV = v.id;
        nv.parked = true; nv.parkedTid = c; nv.desc = "forked"; nv.sysno = -1;
        nv.priority = (long) rng.below(1000000) + 1;
        nv.delay = 0;
        task2v[c] = nv.id;
        V.push_back(nv);
        ptrace(PTRACE_CONT, tid, 0, 0);
        continue;
      }
      v.tasks.insert(c);
      task2v[c] = v.id;
      if (v.transparentTasks.count(tid)) v.transparentTasks.insert(c);
      if (pendingStops.erase(c)) ptrace(PTRACE_CONT, c, 0, 0);
      ptrace(PTRACE_CONT, tid, 0, 0);
      continue;
    }
    if (sig == SIGTRAP && event == PTRACE_EVENT_EXEC) {
      if (tid == exitOf) {
        // a parked execve that succeeded: this stop stands in for its syscall-exit stop
        if (exitResult) *exitResult = 0;
        if (gotExit) *gotExit = true;
        return;
      }
      ptrace(PTRACE_CONT, tid, 0, 0);
      continue;
    }
    if (sig == SIGSTOP && event == 0) {
      // first stop of an auto-attached child (or a stray SIGSTOP): continue without the signal
      ptrace(PTRACE_CONT, tid, 0, 0);
      continue;
    }
    if (sig == SIGTRAP && event == 0) { ptrace(PTRACE_CONT, tid, 0, 0); continue; }
    // any other signal: deliver it
    ptrace(PTRACE_CONT, tid, 0, (void*) (long) sig);
  }
}

static void killVProc(VProc &v) {
  v.killed = true;
  kill(-v.leader, SIGKILL);
  for (pid_t t : std::set<pid_t>(v.tasks)) kill(t, SIGKILL);
  v.parked = false;
  // reap
  while (!v.tasks.empty()) {
    int st = 0;
    pid_t tid = waitpid(-1, &st, __WALL);
    if (tid < 0) { if (errno == EINTR) continue; break; }
    std::map<pid_t, int>::iterator it = task2v.find(tid);
    if (it == task2v.end()) { if (WIFSTOPPED(st)) { kill(tid, SIGKILL); } continue; }
    if (WIFEXITED(st) || WIFSIGNALED(st)) {
      if (tid == v.leader) { if (WIFEXITED(st)) v.exitStatus = WEXITSTATUS(st); else v.termSig = WTERMSIG(st); }
      forget(v, tid);
    } else if (WIFSTOPPED(st)) {
      // a stop racing with the kill: let it run into its death
      ptrace(PTRACE_CONT, tid, 0, 0);
    }
  }
  v.done = true;
}

//---[ scheduling ]---------------------------------------------------------
static int current = -1;
static std::vector<long> pctChange;

static int pick(const std::vector<int> &parked, long decision) {
  const bool curParked = current >= 0 && std::find(parked.begin(), parked.end(), current) != parked.end();
  if (STRATEGY == "script") {
    std::map<long, int>::iterator it = switches.find(decision);
    if (it != switches.end()) {
      if (std::find(parked.begin(), parked.end(), it->second) == parked.end())
        die("replay diverged: decision %ld wants vproc %d which is not parked", decision, it->second);
      return it->second;
    }
    return curParked ? current : parked[0];
  }
  if (STRATEGY == "uniform") return parked[rng.below(parked.size())];
  if (STRATEGY == "pct") {
    // highest priority parked vproc runs; at change points the running one drops to the bottom
    for (long c : pctChange) if (c == decision && curParked) V[current].priority = -decision - 1;
    int best = parked[0];
    for (int p : parked) if (V[p].priority > V[best].priority) best = p;
    return best;
  }
  // rtb: run the current vproc until it blocks/exits; preempt with probability p (x wmult inside
  // an in-flight write window)
  if (curParked) {
    uint64_t p = (uint64_t) sargs[0];
    if (V[current].inWrite) p *= (uint64_t) std::max(1L, sargs[1]);
    if (parked.size() > 1 && rng.permille(p)) {
      std::vector<int> others;
      for (int q : parked) if (q != current) others.push_back(q);
      return others[rng.below(others.size())];
    }
    return current;
  }
  return parked[rng.below(parked.size())];
}

static void setClock() {
  if (clockPage) *clockPage = CLOCK0 + (uint64_t) gstep * TICK;
}

int main(int argc, char **argv) {
  if (argc < 2) { fprintf(stderr, "usage: procsim scenario\n"); return 2; }
  loadScenario(argv[1]);
  setpgid(0, 0);
  rng.seed(SEED);
  logf = fopen((OUT + ".log").c_str(), "w");
  if (!logf) die("cannot write log");
  if (!CLOCKFILE.empty()) {
    int fd = open(CLOCKFILE.c_str(), O_RDWR | O_CREAT, 0644);
    if (fd < 0 || ftruncate(fd, 4096)) die("clock file");
    void *p = mmap(0, 4096, PROT_READ | PROT_WRITE, MAP_SHARED, fd, 0);
    if (p == MAP_FAILED) die("mmap clock");
    clockPage = (volatile uint64_t*) p;
    close(fd);
  }
  if (STRATEGY == "pct") {
    for (VProc &v : V) v.priority = (long) rng.below(1000000) + 1;
    for (long i = 0; i < sargs[0]; ++i) pctChange.push_back((long) rng.below((uint64_t) std::max(1L, sargs[1])));
  }
  setClock();

  long decision = 0;
  while (true) {
    // start vprocs whose delay has passed, or the earliest one when nothing can move
    std::vector<int> parked;
    for (VProc &v : V) if (v.parked) parked.push_back(v.id);
    bool startedOne = false;
    for (size_t vidx = 0; vidx < V.size(); ++vidx) {      // (by index: forked workers may be appended while a vproc runs)
      VProc &v = V[vidx];
      if (!v.started && (v.delay <= gstep || (parked.empty() && !startedOne))) {
        bool earliest = true;
        if (v.delay > gstep) for (VProc &w : V) if (!w.started && w.delay < v.delay) earliest = false;
        if (!earliest) continue;
        setClock();
        spawn(v);
        runUntilPark(v);
        startedOne = true;
        fprintf(logf, "%ld v%d start\n", gstep, v.id);
        if (v.done) fprintf(logf, "%ld v%d exit status=%d sig=%d\n", gstep, v.id, v.exitStatus, v.termSig);
      }
    }
    parked.clear();
    for (VProc &v : V) if (v.parked) parked.push_back(v.id);
    if (parked.empty()) {
      bool allStarted = true;
      for (VProc &v : V) if (!v.started) allStarted = false;
      if (allStarted) break;
      continue;
    }
    if (gstep >= MAXSTEPS) {
      inconclusive = true;
      for (VProc &v : V) if (v.started && !v.done) killVProc(v);
      break;
    }
    const int vi = pick(parked, decision++);
    VProc &v = V[vi];
    current = vi;
    setClock();
    const pid_t tid = v.parkedTid;
    std::map<int, Fault>::iterator fit = v.faults.find((int) v.vstep);
    const bool writeLike = v.sysno == SYS_write || v.sysno == SYS_pwrite64;
    std::string faultNote;
    long result = 0; bool gotExit = false;
    if (fit != v.faults.end() && fit->second.kind == "killbefore") {
      fprintf(logf, "%ld v%d %ld %d %s = KILLED-BEFORE\n", gstep, v.id, v.vstep, v.inWrite ? 1 : 0, v.desc.c_str());
      killVProc(v);
      fprintf(logf, "%ld v%d exit status=%d sig=%d\n", gstep, v.id, v.exitStatus, v.termSig);
      ++gstep;
      continue;
    }
    if (fit != v.faults.end() && fit->second.kind == "torn" && writeLike) {
      user_regs_struct r;
      if (ptrace(PTRACE_GETREGS, tid, 0, &r)) die("GETREGS torn");
      unsigned long n = r.rdx;
      unsigned long n2 = (unsigned long) ((double) n * fit->second.permille / 1000.0);
      if (n2 >= n && n > 0) n2 = n - 1;
      r.rdx = n2;
      if (ptrace(PTRACE_SETREGS, tid, 0, &r)) die("SETREGS torn");
      char b[64]; snprintf(b, sizeof(b), " TORN %lu/%lu", n2, n);
      faultNote = b;
    }
    if (v.sysno == -1 && v.forkedWorker && v.desc == "forked") {
      // first scheduling of a forked worker: release it from its initial stop and run it to its first scheduling point
      v.parked = false;
      v.desc = "";
      fprintf(logf, "%ld v%d %ld 0 forked from v%d = ok\n", gstep, v.id, v.vstep, v.parentV);
      ++v.vstep;
      if (ptrace(PTRACE_CONT, tid, 0, 0)) die("PTRACE_CONT forked worker: %s", strerror(errno));
      runUntilPark(v);
      if (v.done) fprintf(logf, "%ld v%d exit status=%d sig=%d\n", gstep, v.id, v.exitStatus, v.termSig);
      ++gstep;
      continue;
    }
    v.parked = false;
    const std::string desc = v.desc;
    const long sysno = v.sysno;
    if (ptrace(PTRACE_SYSCALL, tid, 0, 0)) die("PTRACE_SYSCALL: %s", strerror(errno));
    runUntilPark(v, tid, &result, &gotExit);
    char res[64];
    if (gotExit) {
      if (result < 0 && result > -4096) snprintf(res, sizeof(res), "E%ld", -result);
      else if (sysno == SYS_read || sysno == SYS_pread64 || sysno == SYS_write || sysno == SYS_pwrite64 ||
               sysno == SYS_writev || sysno == SYS_getdents64 || sysno == SYS_getdents)
        snprintf(res, sizeof(res), "%ld", result);
      else snprintf(res, sizeof(res), "ok");
    } else snprintf(res, sizeof(res), "noexit");   // execve that succeeded / task died
    fprintf(logf, "%ld v%d %ld %d %s = %s%s\n", gstep, v.id, v.vstep, v.inWrite ? 1 : 0, desc.c_str(), res, faultNote.c_str());
    // simulated file times: a completed call that modifies a file under ROOT stamps it with the simulated clock,
    // so that st_mtime (like time()) is a pure function of the seed and the schedule
    if (gotExit && result >= 0) {
      const bool isOpen = desc.compare(0, 5, "open ") == 0;
      bool modifies = desc.compare(0, 6, "write ") == 0 || desc.compare(0, 7, "writev ") == 0 ||
                      desc.compare(0, 10, "ftruncate ") == 0 || desc.compare(0, 9, "truncate ") == 0;
      if (isOpen) {
        size_t f = desc.rfind(" fl=");
        unsigned long fl = f == std::string::npos ? 0 : strtoul(desc.c_str() + f + 4, 0, 8);
        modifies = (fl & (O_CREAT | O_TRUNC)) != 0 && (fl & O_ACCMODE) != O_RDONLY;
      }
      if (modifies) {
        size_t a = desc.find(' '), b = desc.find(' ', a + 1);
        std::string pth = desc.substr(a + 1, b == std::string::npos ? std::string::npos : b - a - 1);
        if (!pth.empty() && pth[0] != '/') pth = ROOT + "/" + pth;
        const uint64_t now = 1700000000ull * 1000000000ull + CLOCK0 + (uint64_t) gstep * TICK;
        struct timespec ts[2];
        ts[0].tv_sec = ts[1].tv_sec = (time_t) (now / 1000000000ull);
        ts[0].tv_nsec = ts[1].tv_nsec = (long) (now % 1000000000ull);
        utimensat(AT_FDCWD, pth.c_str(), ts, 0);
      }
    }
    // in-flight write window bookkeeping
    {
      const bool isOpen = desc.compare(0, 5, "open ") == 0;
      const bool cont = desc.compare(0, 6, "write ") == 0 || desc.compare(0, 7, "writev ") == 0 ||
                        desc.compare(0, 6, "fsync ") == 0 || desc.compare(0, 6, "chmod ") == 0 ||
                        desc.compare(0, 10, "ftruncate ") == 0 || desc.compare(0, 7, "fchmod ") == 0 || desc.compare(0, 6, "fstat ") == 0;
      if (isOpen) {
        // parse fl= to see whether it was opened for writing
        size_t f = desc.rfind(" fl=");
        unsigned long fl = f == std::string::npos ? 0 : strtoul(desc.c_str() + f + 4, 0, 8);
        v.inWrite = gotExit && result >= 0 && (fl & O_ACCMODE) != O_RDONLY;
      } else if (!cont) v.inWrite = false;
    }
    const bool killAfter = fit != v.faults.end() && (fit->second.kind == "killafter" || fit->second.kind == "torn");
    ++v.vstep;
    if (killAfter) {
      fprintf(logf, "%ld v%d KILLED-AFTER\n", gstep, v.id);
      killVProc(v);
      fprintf(logf, "%ld v%d exit status=%d sig=%d\n", gstep, v.id, v.exitStatus, v.termSig);
      ++gstep;
      continue;
    }
    if (gotExit) {
      if (ptrace(PTRACE_CONT, tid, 0, 0)) die("PTRACE_CONT after exit stop: %s", strerror(errno));
      runUntilPark(v);
    } else if (!v.done && !v.parked) {
      runUntilPark(v);
    }
    if (v.done) fprintf(logf, "%ld v%d exit status=%d sig=%d\n", gstep, v.id, v.exitStatus, v.termSig);
    ++gstep;
  }
  fclose(logf);

  FILE *rf = fopen((OUT + ".res").c_str(), "w");
  if (!rf) die("cannot write results");
  fprintf(rf, "gsteps %ld\ninconclusive %d\n", gstep, inconclusive ? 1 : 0);
  for (VProc &v : V)
    fprintf(rf, "vproc %d steps %ld status %d sig %d killed %d compiles %d realcompiles %d\n",
            v.id, v.vstep, v.exitStatus, v.termSig, v.killed ? 1 : 0, v.compilerExecs, v.realCompiles);
  fclose(rf);
  return 0;
}
