/* Plain definitions of the OKL vector types for kernels compiled by the host compiler
   (force-included through compiler_flags by the C10 workload; never seen by the OKL parser). */
#ifndef SIM_VECTYPES_H
#define SIM_VECTYPES_H
struct float2 { float x, y; };
struct float4 { float x, y, z, w; };
struct int2 { int x, y; };
struct int4 { int x, y, z, w; };
struct double2 { double x, y; };
#endif
