// occa_builder: the workload of one *virtual process* in procsim.
// Reads a job spec (JSON, outside the simulated tree), builds and runs kernels
// through the public OCCA API, prints one JSON line per job on stdout.
//
// exit 0: every job ok; 3: some job raised occa::exception; 4: other C++ exception;
// a signal (SIGSEGV ...) is reported by the tracer as a crash.
#include <fcntl.h>
#include <unistd.h>
#include <cstdio>
#include <cstdlib>
#include <cstring>
#include <fstream>
#include <iostream>
#include <sstream>
#include <vector>

#include <occa.hpp>
#include <occa/types/json.hpp>
#include <occa/functional.hpp>

using occa::json;

static occa::dtype_t dtypeByName(const std::string &n) {
  if (n == "byte") return occa::dtype::byte;
  if (n == "bool") return occa::dtype::bool_;
  if (n == "char") return occa::dtype::char_;
  if (n == "short") return occa::dtype::short_;
  if (n == "int") return occa::dtype::int_;
  if (n == "long") return occa::dtype::long_;
  if (n == "float") return occa::dtype::float_;
  if (n == "double") return occa::dtype::double_;
  if (n == "float2") return occa::dtype::float2;
  if (n == "float4") return occa::dtype::float4;
  if (n == "int2") return occa::dtype::int2;
  if (n == "int4") return occa::dtype::int4;
  if (n == "double2") return occa::dtype::double2;
  fprintf(stderr, "unknown dtype %s\n", n.c_str());
  exit(9);
}

// One argument from its spec.  Memories are kept alive in `keep`.
static occa::kernelArg makeArg(occa::device &dev, const json &a,
                               std::vector<occa::memory> &keep) {
  const std::string t = a["t"];
  if (t == "mem") {
    const int n = a.get("n", 4);
    occa::memory m = dev.malloc(n, dtypeByName(a["dtype"]));
    std::vector<char> z(m.byte_size(), 0);
    m.copyFrom(z.data());
    keep.push_back(m);
    return occa::kernelArg(m);
  }
  if (t == "null")   return occa::kernelArg(occa::null);
  if (t == "bool")   return occa::kernelArg((bool)   (int) a.get("v", 1));
  if (t == "char")   return occa::kernelArg((char)   (int) a.get("v", 1));
  if (t == "short")  return occa::kernelArg((short)  (int) a.get("v", 1));
  if (t == "int")    return occa::kernelArg((int)    a.get("v", 1));
  if (t == "long")   return occa::kernelArg((long)   (int) a.get("v", 1));
  if (t == "float")  return occa::kernelArg((float)  (double) a.get("v", 1.0));
  if (t == "double") return occa::kernelArg((double) a.get("v", 1.0));
  if (t == "uint")   return occa::kernelArg((unsigned int) (int) a.get("v", 1));
  fprintf(stderr, "unknown arg kind %s\n", t.c_str());
  exit(9);
}

static std::string oneLine(std::string s) {
  for (char &c : s) if (c == '\n' || c == '\r') c = ' ';
  if (s.size() > 600) s = s.substr(0, 600);
  return s;
}

static int g_child = -1;     // worker index after a "prefork" (else -1)

int main(int argc, char **argv) {
  if (argc < 2) { fprintf(stderr, "usage: occa_builder job.json\n"); return 9; }
  json spec = json::read(argv[1]);
  int rc = 0;
  const std::string mode = spec.get<std::string>("mode", "Serial");
  try {
    json dprops = spec["device"];
    if (!dprops.isInitialized()) dprops = json(json::object_);
    dprops["mode"] = mode;
    occa::device dev(dprops);
    json jobs = spec["jobs"];
    // "prefork": N - the process first builds the "warm" kernels itself (so that whatever libocca keeps in the
    // process - devices, caches, generators - exists), then forks N workers which run the job list; the parent leaves
    int &child = g_child;
    const int prefork = spec.get("prefork", 0);
    if (prefork > 0) {
      json warm = spec["warm"];
      for (int j = 0; warm.isInitialized() && j < warm.size(); ++j) {
        json job = warm[j];
        json props = job["props"];
        if (!props.isInitialized()) props = json(json::object_);
        dev.buildKernelFromString(job["source"], job.get<std::string>("kernel", "k"), props);
      }
      std::cout.flush();
      {
        // announce the forks to the simulator (it schedules the workers as virtual processes of their own)
        const std::string marker = spec.get<std::string>("fork_marker", "") + std::to_string(prefork);
        int fd = open(marker.c_str(), O_RDONLY);
        if (fd >= 0) close(fd);
      }
      for (int c = 0; c < prefork && child < 0; ++c) {
        pid_t pid = fork();
        if (pid == 0) child = c;
      }
      if (child < 0) _exit(0);
    }
    for (int j = 0; j < jobs.size(); ++j) {
      json job = jobs[j];
      json out(json::object_);
      out["job"] = j;
      if (child >= 0) out["child"] = child;
      try {
        const std::string name = job.get<std::string>("kernel", "k");
        // files (re)written by this process right before the build: {path: contents}
        json pre = job["prewrite"];
        if (pre.isInitialized() && pre.isObject()) {
          occa::jsonObject &files = pre.object();
          for (occa::jsonObject::iterator it = files.begin(); it != files.end(); ++it) {
            std::ofstream f(it->first.c_str(), std::ios::out | std::ios::trunc);
            f << (std::string) it->second;
          }
        }
        if (job.get<std::string>("kind", "string") == "none") {
          // an editor job: it only (re)writes files
          out["status"] = "ok";
          std::cout << out.dump(0) << std::endl;
          continue;
        }
        // a job may bring its own device properties (otherwise the process-wide device is used)
        occa::device jdev = dev;
        if (job.has("device")) {
          json jd = job["device"];
          jd["mode"] = mode;
          jdev = occa::device(jd);
        }
        json props = job["props"];
        if (!props.isInitialized()) props = json(json::object_);
        if (job.has("fnvariant")) {
          // the `functions` property can only be populated through the functional API
          const int fv = job.get("fnvariant", 0);
          if (fv == 0) {
            props["functions/addk"] = OCCA_FUNCTION({}, [=](int a) -> int { return a + 1; });
          } else if (fv == 1) {
            props["functions/addk"] = OCCA_FUNCTION({}, [=](int a) -> int { return a + 2; });
          } else {
            props["functions/addk"] = OCCA_FUNCTION({}, [=](int a) -> int { return a * 3; });
          }
        }
        occa::kernel k;
        if (job.get<std::string>("kind", "string") == "string") {
          k = jdev.buildKernelFromString(job["source"], name, props);
        } else {
          k = jdev.buildKernel(job["file"], name, props);
        }
        out["hash"] = k.hash().getFullString();
        out["binary"] = k.binaryFilename();
        const int n = job.get("n", 8);
        if (job.get("run", true)) {
          occa::memory o = jdev.malloc<int>(n);
          std::vector<int> h(n, 0);
          o.copyFrom(h.data());
          k(n, o);
          o.copyTo(h.data());
          json vec(json::array_);
          for (int i = 0; i < n; ++i) vec += h[i];
          out["out"] = vec;
        }
        json tests = job["argtests"];
        if (tests.isInitialized()) {
          std::string decisions;
          for (int t = 0; t < tests.size(); ++t) {
            std::vector<occa::memory> keep;
            char d = '?';
            try {
              k.clearArgs();
              json tuple = tests[t];
              for (int a = 0; a < tuple.size(); ++a) {
                k.pushArg(makeArg(jdev, tuple[a], keep));
              }
              k.run();
              d = 'A';   // accepted
            } catch (occa::exception &e) {
              d = 'R';   // raised
            }
            decisions += d;
          }
          k.clearArgs();
          out["decisions"] = decisions;
        }
        out["status"] = "ok";
      } catch (occa::exception &e) {
        out["status"] = "exception";
        out["what"] = oneLine(e.message);
        rc = 3;
      }
      std::cout << out.dump(0) << std::endl;
    }
  } catch (occa::exception &e) {
    json out(json::object_);
    out["job"] = -1; out["status"] = "exception"; out["what"] = oneLine(e.message);
    if (g_child >= 0) out["child"] = g_child;
    std::cout << out.dump(0) << std::endl;
    return 3;
  } catch (std::exception &e) {
    json out(json::object_);
    out["job"] = -1; out["status"] = "std::exception"; out["what"] = oneLine(e.what());
    if (g_child >= 0) out["child"] = g_child;
    std::cout << out.dump(0) << std::endl;
    return 4;
  }
  std::cout.flush();
  return rc;
}
