// libsimenv.so — LD_PRELOAD shim: the simulated clock and entropy source of procsim.
//
//   time / gettimeofday / clock_gettime  -> SIM_CLOCK_BASE_NS + *(u64*)mmap(SIM_CLOCK_FILE)
//   std::random_device::_M_getval()      -> splitmix64(SIM_SEED, SIM_VPROC, call index)
//
// The tracer updates the clock page before it resumes a virtual process, so the value
// read is a pure function of the seed and the schedule.  Code under test (hash_t::random,
// sys::date) is untouched.
#include <cstdint>
#include <cstdlib>
#include <cstring>
#include <ctime>
#include <dlfcn.h>
#include <fcntl.h>
#include <sys/mman.h>
#include <sys/time.h>
#include <unistd.h>

namespace {
  volatile uint64_t *clockPage = 0;
  uint64_t baseNs = 0;
  bool inited = false;
  uint64_t entropyCalls = 0;
  uint64_t entropyKey = 0;

  uint64_t envU64(const char *name, uint64_t dflt) {
    const char *s = getenv(name);
    return s ? strtoull(s, 0, 10) : dflt;
  }

  uint64_t splitmix(uint64_t x) {
    x += 0x9E3779B97F4A7C15ull;
    x = (x ^ (x >> 30)) * 0xBF58476D1CE4E5B9ull;
    x = (x ^ (x >> 27)) * 0x94D049BB133111EBull;
    return x ^ (x >> 31);
  }

  void init() {
    if (inited) return;
    inited = true;
    baseNs = envU64("SIM_CLOCK_BASE_NS", 1700000000ull * 1000000000ull);
    entropyKey = splitmix(envU64("SIM_SEED", 0) * 1000003ull + envU64("SIM_VPROC", 0));
    const char *f = getenv("SIM_CLOCK_FILE");
    if (f) {
      int fd = open(f, O_RDONLY);
      if (fd >= 0) {
        void *p = mmap(0, 4096, PROT_READ, MAP_SHARED, fd, 0);
        if (p != MAP_FAILED) clockPage = (volatile uint64_t*) p;
        close(fd);
      }
    }
  }

  uint64_t nowNs() {
    init();
    return baseNs + (clockPage ? *clockPage : 0);
  }
}

extern "C" {
  time_t time(time_t *t) {
    time_t v = (time_t) (nowNs() / 1000000000ull);
    if (t) *t = v;
    return v;
  }

  int gettimeofday(struct timeval *tv, void *) {
    uint64_t n = nowNs();
    if (tv) { tv->tv_sec = n / 1000000000ull; tv->tv_usec = (n % 1000000000ull) / 1000; }
    return 0;
  }

  int clock_gettime(clockid_t, struct timespec *ts) {
    uint64_t n = nowNs();
    if (ts) { ts->tv_sec = n / 1000000000ull; ts->tv_nsec = n % 1000000000ull; }
    return 0;
  }

  // fork(): the kernel's entropy source hands different bytes to parent and child, so must the simulated one -
  // the child's stream is re-keyed by its position in the parent's fork order (deterministic); everything else in
  // user space (e.g. a seeded generator object) is inherited, as with the real call
  pid_t fork(void) {
    typedef pid_t (*fork_t)(void);
    static fork_t realFork = (fork_t) dlsym(RTLD_NEXT, "fork");
    static uint64_t forks = 0;
    init();
    ++forks;
    pid_t p = realFork();
    if (p == 0) {
      entropyKey = splitmix(entropyKey ^ (forks * 0xD6E8FEB86659FD93ull));
      entropyCalls = 0;
      forks = 0;
    }
    return p;
  }

  // unsigned int std::random_device::_M_getval()
  unsigned int _ZNSt13random_device9_M_getvalEv(void *) {
    init();
    return (unsigned int) splitmix(entropyKey + (++entropyCalls) * 0x632BE59BD9B4E019ull);
  }
}
