// okl2cpp — translate an OKL kernel file with the real serial / openmp parsers of libocca.
//   okl2cpp <serial|openmp> <in.okl> <out.cpp>      exit 0 ok, 3 parser reported errors, 4 exception
#include <fstream>
#include <iostream>
#include <sstream>

#include <occa.hpp>
#include <occa/internal/lang/modes/serial.hpp>
#include <occa/internal/lang/modes/openmp.hpp>

int main(int argc, char **argv) {
  if (argc < 4) { std::cerr << "usage: okl2cpp <serial|openmp> in.okl out.cpp\n"; return 2; }
  const std::string mode = argv[1];
  try {
    occa::json props;
    props["okl/validate"] = true;
    std::string out;
    bool ok = false;
    if (mode == "serial") {
      occa::lang::okl::serialParser parser(props);
      parser.parseFile(argv[2]);
      ok = parser.succeeded();
      if (ok) out = parser.toString();
    } else {
      occa::lang::okl::openmpParser parser(props);
      parser.parseFile(argv[2]);
      ok = parser.succeeded();
      if (ok) out = parser.toString();
    }
    if (!ok) return 3;
    std::ofstream f(argv[3]);
    f << out;
    return 0;
  } catch (occa::exception &e) {
    std::cerr << e.message << "\n";
    return 4;
  }
}
