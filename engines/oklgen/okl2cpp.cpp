// okl2cpp — translate an OKL kernel file with the real translators of libocca.
//   okl2cpp <serial|openmp|cuda|hip|opencl|metal|dpcpp> <in.okl> <out.cpp> [launcher-out.cpp]
// exit 0 ok, 3 the parser reported errors (kernel rejected), 4 occa::exception
#include <fstream>
#include <iostream>
#include <sstream>

#include <occa.hpp>
#include <occa/internal/lang/modes/serial.hpp>
#include <occa/internal/lang/modes/openmp.hpp>
#include <occa/internal/lang/modes/cuda.hpp>
#include <occa/internal/lang/modes/hip.hpp>
#include <occa/internal/lang/modes/opencl.hpp>
#include <occa/internal/lang/modes/metal.hpp>
#include <occa/internal/lang/modes/dpcpp.hpp>

int main(int argc, char **argv) {
  if (argc < 4) { std::cerr << "usage: okl2cpp <mode> in.okl out.cpp [launcher.cpp]\n"; return 2; }
  const std::string mode = argv[1];
  try {
    occa::json props;
    props["okl/validate"] = true;
    occa::lang::parser_t *parser = 0;
    bool hasLauncher = true;
    if (mode == "serial") { parser = new occa::lang::okl::serialParser(props); hasLauncher = false; }
    else if (mode == "openmp") { parser = new occa::lang::okl::openmpParser(props); hasLauncher = false; }
    else if (mode == "cuda") parser = new occa::lang::okl::cudaParser(props);
    else if (mode == "hip") parser = new occa::lang::okl::hipParser(props);
    else if (mode == "opencl") parser = new occa::lang::okl::openclParser(props);
    else if (mode == "metal") parser = new occa::lang::okl::metalParser(props);
    else if (mode == "dpcpp") parser = new occa::lang::okl::dpcppParser(props);
    else { std::cerr << "unknown mode\n"; return 2; }
    parser->parseFile(argv[2]);
    if (!parser->succeeded()) return 3;
    { std::ofstream f(argv[3]); f << parser->toString(); }
    if (hasLauncher && argc > 4) {
      occa::lang::parser_t &lp = ((occa::lang::okl::withLauncher*) parser)->launcherParser;
      std::ofstream f(argv[4]);
      f << lp.toString();
    }
    return 0;
  } catch (occa::exception &e) {
    std::cerr << e.message << "\n";
    return 4;
  }
}
