// hsim — executor/observer of the handlesim engine.
//
// A fork server: reads histories on stdin, runs each in a forked child (so a crash or an ASan
// report ends only that run), prints after EVERY operation a full observation of all handle
// slots, pools, devices, host arrays and the live-object counters.  The reference model and
// the oracles live in the Python driver; this program only executes and reports.
//
// protocol (stdin):   RUN <nops>\n  <op>\n ...        (one history)
//                     QUIT
// protocol (stdout):  for every op:  "R ok" | "R exc <text>"   then the observation block, then "."
//                     after the child ended:  "STATUS <exitcode> <signal>"
#include <cstdio>
#include <cstdlib>
#include <cstring>
#include <iostream>
#include <new>
#include <sstream>
#include <string>
#include <sys/wait.h>
#include <sys/resource.h>
#include <unistd.h>
#include <vector>

#include <occa.hpp>
#include <occa/internal/core/memory.hpp>
#include <occa/internal/core/memoryPool.hpp>
#include <occa/internal/utils/verif.hpp>

#ifndef HSIM_NO_MAIN
extern "C" __attribute__((used)) const char *__asan_default_options() {
  return "exitcode=77:detect_leaks=0:abort_on_error=0:allocator_may_return_null=1:detect_stack_use_after_return=0";
}
#endif

template <class T, int N>
struct Slots {
  alignas(T) unsigned char raw[N][sizeof(T)];
  bool present[N];
  Slots() { for (int i = 0; i < N; ++i) present[i] = false; }
  T& at(int i) { return *reinterpret_cast<T*>(raw[i]); }
  void make(int i) { if (!present[i]) { new (raw[i]) T(); present[i] = true; } }
  void copyMake(int i, T &src) { if (!present[i]) { new (raw[i]) T(src); present[i] = true; } }
  void destroy(int i) { if (present[i]) { at(i).~T(); present[i] = false; } }
};

#ifndef HS_ND
#define HS_ND 3
#define HS_NM 10
#define HS_NP 3
#define HS_NK 3
#define HS_NS 3
#endif
static const int ND = HS_ND, NM = HS_NM, NP = HS_NP, NK = HS_NK, NS = HS_NS, NH = 4, HBYTES = 256;
static Slots<occa::device, ND> D;
static Slots<occa::memory, NM> M;
static Slots<occa::memoryPool, NP> P;
static Slots<occa::kernel, NK> K;
static Slots<occa::stream, NS> S;
static unsigned char *H[NH];

struct Skip {};   // operation not applicable in the current slot state (generator/model disagree => reported)

static const occa::dtype_t& dtypeOf(const std::string &n) {
  if (n == "byte") return occa::dtype::byte;
  if (n == "char") return occa::dtype::char_;
  if (n == "short") return occa::dtype::short_;
  if (n == "int") return occa::dtype::int_;
  if (n == "long") return occa::dtype::long_;
  if (n == "float") return occa::dtype::float_;
  if (n == "double") return occa::dtype::double_;
  if (n == "float2") return occa::dtype::float2;
  if (n == "int4") return occa::dtype::int4;
  if (n == "double2") return occa::dtype::double2;
  if (n == "unreg") { static occa::dtype_t unreg("unreg", 4); return unreg; }   // never registered
  fprintf(stderr, "hsim: unknown dtype %s\n", n.c_str());
  _exit(90);
}

static const char *KSRC[2] = {
  "@kernel void k0(const int n, const int *a, int *b) {\n"
  "  for (int i = 0; i < n; ++i; @outer) { for (int j = 0; j < 1; ++j; @inner) { b[i] = a[i] + 1; } }\n}\n",
  "@kernel void k1(const int n, const int *a, int *b) {\n"
  "  for (int i = 0; i < n; ++i; @outer) { for (int j = 0; j < 1; ++j; @inner) { b[i] = 2 * a[i]; } }\n}\n",
};

static void need(bool c) { if (!c) throw Skip(); }

static void hex(const unsigned char *p, size_t n) {
  static const char *d = "0123456789abcdef";
  std::string s; s.reserve(2 * n);
  for (size_t i = 0; i < n; ++i) { s.push_back(d[p[i] >> 4]); s.push_back(d[p[i] & 15]); }
  fputs(s.c_str(), stdout);
}

static void observe() {
  for (int i = 0; i < ND; ++i) {
    if (!D.present[i]) { printf("D %d 0\n", i); continue; }
    occa::device &d = D.at(i);
    if (!d.isInitialized()) { printf("D %d 1 0\n", i); continue; }
    printf("D %d 1 1 %s %lu %lu\n", i, d.mode().c_str(), (unsigned long) d.memoryAllocated(), (unsigned long) d.maxMemoryAllocated());
  }
  for (int i = 0; i < NP; ++i) {
    if (!P.present[i]) { printf("P %d 0\n", i); continue; }
    occa::memoryPool &p = P.at(i);
    printf("P %d 1 %d %lu %lu %lu %lu\n", i, p.isInitialized() ? 1 : 0, (unsigned long) p.size(), (unsigned long) p.reserved(),
           (unsigned long) p.numReservations(), (unsigned long) p.alignment());
  }
  for (int i = 0; i < NM; ++i) {
    if (!M.present[i]) { printf("M %d 0\n", i); continue; }
    occa::memory &m = M.at(i);
    if (!m.isInitialized()) {
      printf("M %d 1 0 %lu %lu\n", i, (unsigned long) m.byte_size(), (unsigned long) m.length());
      continue;
    }
    occa::modeMemory_t *mm = m.getModeMemory();
    const size_t bytes = m.byte_size();
    printf("M %d 1 1 %lu %lu %s %ld ", i, (unsigned long) bytes, (unsigned long) m.length(), m.dtype().name().c_str(), (long) mm->offset);
    if (bytes) {
      std::vector<unsigned char> buf(bytes + 16, 0xEE);
      // read through the byte view so that a dtype mismatch can never hide bytes
      m.copyTo(buf.data(), (occa::dim_t) m.length(), 0);
      hex(buf.data(), bytes);
      // guard: copyTo must not write past `bytes`
      for (int g = 0; g < 16; ++g) if (buf[bytes + g] != 0xEE) { printf(" OVERRUN"); break; }
    } else {
      printf("-");
    }
    printf("\n");
  }
  for (int i = 0; i < NK; ++i) printf("K %d %d %d\n", i, K.present[i] ? 1 : 0, (K.present[i] && K.at(i).isInitialized()) ? 1 : 0);
  for (int i = 0; i < NS; ++i) printf("S %d %d %d\n", i, S.present[i] ? 1 : 0, (S.present[i] && S.at(i).isInitialized()) ? 1 : 0);
  for (int j = 0; j < NH; ++j) { printf("H %d ", j); hex(H[j], HBYTES); printf("\n"); }
  printf("C");
  for (int k = 0; k < occa::verif::kKindCount; ++k) printf(" %ld", occa::verif::created[k]);
  for (int k = 0; k < occa::verif::kKindCount; ++k) printf(" %ld", occa::verif::destroyed[k]);
  printf("\n.\n");
  fflush(stdout);
}

static long L(const std::vector<std::string> &t, size_t i) { return i < t.size() ? atol(t[i].c_str()) : 0; }

static void exec(const std::vector<std::string> &t) {
  const std::string &op = t[0];
  // ---- generic lifetime operations:  <op> <kind> <i> [j]
  if (op == "new" || op == "del" || op == "copy" || op == "assign" || op == "swap" || op == "free" || op == "norefs") {
    const char k = t[1][0];
    const int i = (int) L(t, 2), j = (int) L(t, 3);
#define KIND(SL, HAS_SWAP)                                                             \
    {                                                                                  \
      if (op == "new") { need(!SL.present[i]); SL.make(i); }                           \
      else if (op == "del") { need(SL.present[i]); SL.destroy(i); }                    \
      else if (op == "copy") { need(!SL.present[i] && SL.present[j]); SL.copyMake(i, SL.at(j)); } \
      else if (op == "assign") { need(SL.present[i] && SL.present[j]); SL.at(i) = SL.at(j); }     \
      else if (op == "free") { need(SL.present[i]); SL.at(i).free(); }                 \
      else if (op == "norefs") { need(SL.present[i]); SL.at(i).dontUseRefs(); }        \
      else if (op == "swap") { need(SL.present[i] && SL.present[j]); HAS_SWAP; }       \
    }
    if (k == 'D') KIND(D, throw Skip())
    else if (k == 'M') KIND(M, M.at(i).swap(M.at(j)))
    else if (k == 'P') KIND(P, P.at(i).swap(P.at(j)))
    else if (k == 'K') KIND(K, throw Skip())
    else if (k == 'S') KIND(S, throw Skip())
    return;
  }
  if (op == "mkdev") {            // mkdev d mode
    const int d = (int) L(t, 1);
    need(D.present[d]);
    if (L(t, 3)) {
      // device-level default: every memory of this device gets use_host_pointer unless the call says otherwise
      occa::json props;
      props["mode"] = t[2];
      props["memory/use_host_pointer"] = true;
      D.at(d) = occa::device(props);
    } else {
      D.at(d) = occa::device({{"mode", t[2]}});
    }
    return;
  }
  if (op == "malloc") {           // malloc d m entries dtype srcH(-1 none) useHost ownHost
    const int d = (int) L(t, 1), m = (int) L(t, 2);
    const long entries = L(t, 3);
    const int h = (int) L(t, 5);
    need(D.present[d] && M.present[m]);
    occa::json props;
    if (L(t, 6)) props["use_host_pointer"] = true;
    if (L(t, 7)) props["own_host_pointer"] = true;
    M.at(m) = D.at(d).malloc(entries, dtypeOf(t[4]), h >= 0 ? (const void*) H[h] : (const void*) NULL, props);
    return;
  }
  if (op == "wrap") {             // wrap d m H entries dtype
    const int d = (int) L(t, 1), m = (int) L(t, 2), h = (int) L(t, 3);
    need(D.present[d] && M.present[m]);
    occa::json wprops;
    if (L(t, 6)) wprops["use_host_pointer"] = true;
    M.at(m) = D.at(d).wrapMemory((const void*) H[h], L(t, 4), dtypeOf(t[5]), wprops);
    return;
  }
  if (op == "mkpool") { const int d = (int) L(t, 1), p = (int) L(t, 2); need(D.present[d] && P.present[p]); P.at(p) = D.at(d).createMemoryPool(); return; }
  if (op == "mkstream") { const int d = (int) L(t, 1), s = (int) L(t, 2); need(D.present[d] && S.present[s]); S.at(s) = D.at(d).createStream(); return; }
  if (op == "setstream") { const int d = (int) L(t, 1), s = (int) L(t, 2); need(D.present[d] && S.present[s]); D.at(d).setStream(S.at(s)); return; }
  if (op == "getstream") { const int d = (int) L(t, 1), s = (int) L(t, 2); need(D.present[d] && S.present[s]); S.at(s) = D.at(d).getStream(); return; }
  if (op == "build") {            // build d k idx
    const int d = (int) L(t, 1), k = (int) L(t, 2), idx = (int) L(t, 3);
    need(D.present[d] && K.present[k]);
    K.at(k) = D.at(d).buildKernelFromString(KSRC[idx], idx == 0 ? "k0" : "k1");
    return;
  }
  if (op == "run") {              // run k mA mB n
    const int k = (int) L(t, 1), a = (int) L(t, 2), b = (int) L(t, 3);
    need(K.present[k] && M.present[a] && M.present[b]);
    K.at(k)((int) L(t, 4), M.at(a), M.at(b));
    return;
  }
  if (op == "slice") {            // slice dst src off count
    const int m = (int) L(t, 1), s = (int) L(t, 2);
    need(M.present[m] && M.present[s]);
    M.at(m) = M.at(s).slice(L(t, 3), L(t, 4));
    return;
  }
  if (op == "plus") { const int m = (int) L(t, 1), s = (int) L(t, 2); need(M.present[m] && M.present[s]); M.at(m) = M.at(s) + L(t, 3); return; }
  if (op == "cast") { const int m = (int) L(t, 1), s = (int) L(t, 2); need(M.present[m] && M.present[s]); M.at(m) = M.at(s).cast(dtypeOf(t[3])); return; }
  if (op == "clone") { const int m = (int) L(t, 1), s = (int) L(t, 2); need(M.present[m] && M.present[s]); M.at(m) = M.at(s).clone(); return; }
  if (op == "copyMM") {           // dst.copyFrom(src, count, dstOff, srcOff)
    const int a = (int) L(t, 1), b = (int) L(t, 2);
    need(M.present[a] && M.present[b]);
    M.at(a).copyFrom(M.at(b), L(t, 3), L(t, 4), L(t, 5));
    return;
  }
  if (op == "copyToMM") {         // src.copyTo(dst, count, dstOff, srcOff)
    const int a = (int) L(t, 1), b = (int) L(t, 2);
    need(M.present[a] && M.present[b]);
    M.at(a).copyTo(M.at(b), L(t, 3), L(t, 4), L(t, 5));
    return;
  }
  if (op == "copyHM") {           // m.copyFrom(H + hoff, count, off)
    const int m = (int) L(t, 1), h = (int) L(t, 2);
    need(M.present[m]);
    M.at(m).copyFrom((const void*) (H[h] + L(t, 5)), L(t, 3), L(t, 4));
    return;
  }
  if (op == "copyMH") {           // m.copyTo(H + hoff, count, off)
    const int m = (int) L(t, 1), h = (int) L(t, 2);
    need(M.present[m]);
    M.at(m).copyTo((void*) (H[h] + L(t, 5)), L(t, 3), L(t, 4));
    return;
  }
  if (op == "fill") {             // fill m val : write a recognisable pattern through the whole view
    const int m = (int) L(t, 1);
    need(M.present[m]);
    if (!M.at(m).isInitialized()) return;
    const size_t n = (size_t) M.at(m).length() * M.at(m).dtype().bytes();
    std::vector<unsigned char> tmp(n + 1);
    for (size_t i = 0; i < n; ++i) tmp[i] = (unsigned char) (L(t, 2) + 7 * (long) i);
    M.at(m).copyFrom((const void*) tmp.data());
    return;
  }
  if (op == "hostwrite") {        // hostwrite H off len val
    const int h = (int) L(t, 1);
    const long off = L(t, 2), len = L(t, 3);
    for (long i = 0; i < len; ++i) H[h][off + i] = (unsigned char) (L(t, 4) + i);
    return;
  }
  if (op == "reserve") {          // reserve p m entries dtype
    const int p = (int) L(t, 1), m = (int) L(t, 2);
    need(P.present[p] && M.present[m]);
    M.at(m) = P.at(p).reserve(L(t, 3), dtypeOf(t[4]));
    return;
  }
  if (op == "presize") { const int p = (int) L(t, 1); need(P.present[p]); P.at(p).resize((occa::udim_t) L(t, 2)); return; }
  if (op == "pshrink") { const int p = (int) L(t, 1); need(P.present[p]); P.at(p).shrinkToFit(); return; }
  if (op == "palign") { const int p = (int) L(t, 1); need(P.present[p]); P.at(p).setAlignment((occa::udim_t) L(t, 2)); return; }
  if (op == "nop") return;
  fprintf(stderr, "hsim: unknown op %s\n", op.c_str());
  _exit(91);
}

static std::string oneLine(std::string s) {
  for (char &c : s) if (c == '\n' || c == '\r') c = ' ';
  return s.size() > 300 ? s.substr(0, 300) : s;
}

static void runHistory(const std::vector<std::string> &ops) {
  for (int j = 0; j < NH; ++j) {
    // host arrays the harness never frees itself (own_host_pointer may hand them to OCCA)
    H[j] = (unsigned char*) malloc(HBYTES);
    for (int i = 0; i < HBYTES; ++i) H[j][i] = (unsigned char) (0x40 + 16 * j + (i % 13));
  }
  for (size_t n = 0; n < ops.size(); ++n) {
    std::vector<std::string> t;
    std::istringstream is(ops[n]);
    std::string w;
    while (is >> w) t.push_back(w);
    if (t.empty()) t.push_back("nop");
    try {
      exec(t);
      printf("R ok\n");
    } catch (occa::exception &e) {
      printf("R exc %s\n", oneLine(e.message).c_str());
    } catch (Skip &) {
      printf("R skip\n");
    }
    observe();
  }
  // end of history: drop every handle, then report the counters once more
  for (int i = 0; i < NM; ++i) M.destroy(i);
  for (int i = 0; i < NK; ++i) K.destroy(i);
  for (int i = 0; i < NS; ++i) S.destroy(i);
  for (int i = 0; i < NP; ++i) P.destroy(i);
  printf("R end-handles\n");
  observe();
  for (int i = 0; i < ND; ++i) D.destroy(i);
  printf("R end-devices\n");
  observe();
}

#ifndef HSIM_NO_MAIN
int main(int argc, char **argv) {
  setvbuf(stdout, 0, _IOFBF, 1 << 16);
  // warm-up in the template: initialise libocca once so that every forked run starts from the same image
  {
    occa::device warm({{"mode", "Serial"}});
    occa::kernel k0 = warm.buildKernelFromString(KSRC[0], "k0");
    occa::kernel k1 = warm.buildKernelFromString(KSRC[1], "k1");
    occa::device warm2({{"mode", "OpenMP"}});
    occa::kernel k2 = warm2.buildKernelFromString(KSRC[0], "k0");
    occa::kernel k3 = warm2.buildKernelFromString(KSRC[1], "k1");
  }
  for (int k = 0; k < occa::verif::kKindCount; ++k) { occa::verif::created[k] = 0; occa::verif::destroyed[k] = 0; }
  printf("READY\n");
  fflush(stdout);
  std::string line;
  while (std::getline(std::cin, line)) {
    if (line == "QUIT") break;
    if (line.compare(0, 4, "RUN ") != 0) continue;
    const int n = atoi(line.c_str() + 4);
    std::vector<std::string> ops;
    for (int i = 0; i < n; ++i) { std::getline(std::cin, line); ops.push_back(line); }
    fflush(stdout);
    pid_t pid = fork();
    if (pid == 0) {
      // a history takes milliseconds: ten seconds of CPU time mean it does not terminate (SIGXCPU, reported as a hang)
      struct rlimit rl; rl.rlim_cur = 10; rl.rlim_max = 12;
      setrlimit(RLIMIT_CPU, &rl);
      runHistory(ops);
      fflush(stdout);
      _exit(0);
    }
    int st = 0;
    waitpid(pid, &st, 0);
    printf("STATUS %d %d\n", WIFEXITED(st) ? WEXITSTATUS(st) : -1, WIFSIGNALED(st) ? WTERMSIG(st) : 0);
    fflush(stdout);
  }
  return 0;
}
#endif
