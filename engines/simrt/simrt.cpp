// simrt — deterministic thread scheduler behind the TSan compiler ABI.
//
// Code under test is compiled with -fsanitize=thread but linked WITHOUT libtsan; this file
// provides the __tsan_* entry points instead.  Simulated threads are real pthreads, but exactly
// one holds the run token at any time.  Every instrumented memory access, every atomic and
// every pthread_mutex_lock/unlock of the code under test is a scheduling point at which the
// scripted schedule may move the token to another thread: a preemption between the load and the
// store of `x += y` is therefore expressible without touching the code under test.
//
// The runtime also owns the heap (malloc/free/new/delete are defined here): blocks are never
// reused within a run and a shadow map remembers freed and never-allocated bytes, so double
// frees, uses after free and out-of-block accesses by instrumented code are reported at once.
//
// Link the harness with -rdynamic so that the instrumented shared library binds to these
// definitions.
#include "simrt.hpp"

#include <cerrno>
#include <cstdarg>
#include <cstdint>
#include <cstdio>
#include <cstdlib>
#include <cstring>
#include <pthread.h>
#include <semaphore.h>
#include <sys/mman.h>
#include <unistd.h>

namespace sim {
  //---[ state ]--------------------------------------------------------------
  static const int MAXT = 64;
  static const int MAXSW = 4096;

  struct Thread {
    pthread_t handle;
    sem_t sem;
    fn_t fn; void *arg;
    bool used, done, started;
    const void *blockedOn;
    long steps;
  };
  static Thread T[MAXT];
  static int nthreads = 0;          // worker ids are 1..nthreads
  static sem_t mainSem;
  bool active = false;              // true while workers run
  static __thread int selfId = 0;   // 0 = main / not a sim thread
  static int current = 0;
  static bool checking = false;     // heap checker reports are fatal only while checking

  struct Switch { int region; int tid; long step; int target; bool fired; };
  static int region = 0;            // parallel region counter (threads are numbered from 1 again in every region)
  static Switch SW[MAXSW];
  static int nsw = 0;
  static long switchesFired = 0, totalSteps = 0, strayUnlocks = 0;

  // trace
  static bool tracing = false;
  static FILE *traceFile = 0;

  int self() { return selfId; }
  long steps(int tid) { return T[tid].steps; }
  long fired() { return switchesFired; }

  void report(const char *kind, const char *fmt, ...) {
    char buf[512];
    va_list ap; va_start(ap, fmt);
    vsnprintf(buf, sizeof(buf), fmt, ap);
    va_end(ap);
    char out[700];
    int n = snprintf(out, sizeof(out), "SIMRT-REPORT kind=%s thread=%d step=%ld %s\n", kind, selfId, selfId ? T[selfId].steps : 0L, buf);
    if (write(2, out, n) < 0) {}
    _exit(78);
  }

  //---[ heap ]---------------------------------------------------------------
  static char *arena = 0;
  static size_t arenaOff = 0;
  static const size_t ARENA = (size_t) 6 << 30;
  static unsigned char *shadow = 0;     // one byte per 16-byte granule: 0 never allocated, 1 live, 2 freed
  static volatile int heapLock = 0;
  struct Hdr { size_t size; uint32_t magic; uint32_t state; };
  static const uint32_t MAGIC = 0x51A7C0DE;
  static long nAllocs = 0, nFrees = 0;

  static void heapInit() {
    if (arena) return;
    arena = (char*) mmap((void*) 0x200000000000ul, ARENA, PROT_READ | PROT_WRITE, MAP_PRIVATE | MAP_ANONYMOUS | MAP_NORESERVE, -1, 0);
    shadow = (unsigned char*) mmap((void*) 0x300000000000ul, ARENA >> 4, PROT_READ | PROT_WRITE, MAP_PRIVATE | MAP_ANONYMOUS | MAP_NORESERVE, -1, 0);
    if (arena == MAP_FAILED || shadow == MAP_FAILED) { const char m[] = "simrt: cannot map arena\n"; if (write(2, m, sizeof(m) - 1) < 0) {} _exit(79); }
  }

  static void lockHeap() { while (__atomic_exchange_n(&heapLock, 1, __ATOMIC_ACQUIRE)) {} }
  static void unlockHeap() { __atomic_store_n(&heapLock, 0, __ATOMIC_RELEASE); }

  static void *alloc(size_t n, size_t align) {
    heapInit();
    if (align < 16) align = 16;
    lockHeap();
    size_t p = arenaOff + sizeof(Hdr);
    p = (p + align - 1) & ~(align - 1);
    const size_t n16 = (n + 15) & ~(size_t) 15;
    const size_t end = p + (n16 ? n16 : 16) + 16;       // trailing redzone
    if (end > ARENA) { unlockHeap(); errno = ENOMEM; return 0; }
    arenaOff = end;
    ++nAllocs;
    unlockHeap();
    Hdr *h = (Hdr*) (arena + p - sizeof(Hdr));
    h->size = n; h->magic = MAGIC; h->state = 1;
    memset(shadow + (p >> 4), 1, (n16 ? n16 : 16) >> 4);
    return arena + p;
  }

  static bool inArena(const void *p) { return arena && (const char*) p >= arena && (const char*) p < arena + ARENA; }

  static void release(void *ptr) {
    if (!ptr || !inArena(ptr)) return;
    Hdr *h = (Hdr*) ((char*) ptr - sizeof(Hdr));
    if (h->magic != MAGIC) { if (checking) report("invalid-free", "free of %p which is not the start of a block", ptr); return; }
    if (h->state == 2) { if (checking) report("double-free", "block %p (%zu bytes) is freed a second time", ptr, h->size); return; }
    h->state = 2;
    ++nFrees;
    const size_t p = (char*) ptr - arena;
    const size_t n16 = (h->size + 15) & ~(size_t) 15;
    memset(shadow + (p >> 4), 2, (n16 ? n16 : 16) >> 4);
  }

  static inline void checkAccess(const void *addr, size_t size, bool isWrite) {
    if (!checking || !inArena(addr)) return;
    const size_t p = (const char*) addr - arena;
    const unsigned char s = shadow[p >> 4];
    if (s == 2) report("use-after-free", "%s of %zu bytes at %p inside a freed block", isWrite ? "write" : "read", size, addr);
    if (s == 0 && p < arenaOff) report("heap-out-of-bounds", "%s of %zu bytes at %p outside any live block", isWrite ? "write" : "read", size, addr);
  }

  //---[ scheduler ]----------------------------------------------------------
  static bool runnable(int t) { return T[t].used && T[t].started && !T[t].done && T[t].blockedOn == 0; }

  static int pickDefault(int except) {
    for (int t = 1; t <= nthreads; ++t) if (t != except && runnable(t)) return t;
    return 0;
  }

  static void switchTo(int target) {
    const int me = selfId;
    current = target;
    sem_post(&T[target].sem);
    sem_wait(&T[me].sem);
  }

  static inline void point(int kind, const void *addr, size_t size) {
    if (!active) return;
    const int me = selfId;
    if (me == 0) return;
    Thread &t = T[me];
    ++t.steps;
    ++totalSteps;
    if (tracing && traceFile) {
      uint64_t rec[2] = { ((uint64_t) me << 56) | ((uint64_t) kind << 48) | ((uint64_t) (size & 0xffff) << 32) | (uint64_t) (t.steps & 0xffffffff),
                          (uint64_t) addr };
      fwrite(rec, sizeof(rec), 1, traceFile);
    }
    for (int i = 0; i < nsw; ++i) {
      Switch &s = SW[i];
      if (!s.fired && s.tid == me && s.step == t.steps && (s.region < 0 || s.region == region)) {
        s.fired = true;
        if (s.target != me && s.target >= 1 && s.target <= nthreads && runnable(s.target)) {
          ++switchesFired;
          switchTo(s.target);
        }
        break;
      }
    }
  }

  // simulated mutexes
  struct Mutex { const void *addr; int owner; int count; };
  static const int MAXM = 8192;
  static Mutex M[MAXM];

  static Mutex &mutexOf(const void *addr) {
    size_t h = ((size_t) addr >> 3) * 0x9E3779B97F4A7C15ull;
    for (int i = 0; i < MAXM; ++i) {
      Mutex &m = M[(h + i) % MAXM];
      if (m.addr == addr) return m;
      if (m.addr == 0) { m.addr = addr; m.owner = -1; m.count = 0; return m; }
    }
    report("engine", "mutex table full");
    return M[0];
  }

  static void wake(const void *addr) {
    for (int t = 1; t <= nthreads; ++t) if (T[t].used && T[t].blockedOn == addr) T[t].blockedOn = 0;
  }

  static void *entry(void *p) {
    const int id = (int) (long) p;
    selfId = id;
    sem_wait(&T[id].sem);
    T[id].fn(T[id].arg);
    T[id].done = true;
    const int next = pickDefault(id);
    if (next) { current = next; sem_post(&T[next].sem); }
    else {
      // nobody runnable: finished, or everyone left is blocked (deadlock)
      for (int t = 1; t <= nthreads; ++t)
        if (T[t].used && !T[t].done) report("deadlock", "thread %d is blocked forever on mutex %p", t, T[t].blockedOn);
      sem_post(&mainSem);
    }
    return 0;
  }

  int spawn(fn_t fn, void *arg) {
    if (nthreads + 1 >= MAXT) report("engine", "too many threads");
    const int id = ++nthreads;
    Thread &t = T[id];
    t.fn = fn; t.arg = arg; t.used = true; t.done = false; t.started = true; t.blockedOn = 0; t.steps = 0;
    sem_init(&t.sem, 0, 0);
    pthread_attr_t at; pthread_attr_init(&at); pthread_attr_setstacksize(&at, 8 << 20);
    if (pthread_create(&t.handle, &at, entry, (void*) (long) id)) report("engine", "pthread_create failed");
    return id;
  }

  void addSwitch(int tid, long step, int target, int region_) {
    if (nsw < MAXSW) { SW[nsw].region = region_; SW[nsw].tid = tid; SW[nsw].step = step; SW[nsw].target = target; SW[nsw].fired = false; ++nsw; }
  }

  // A new team of threads (ids 1..n again); switches may be tied to a region number (1, 2, ...)
  int beginRegion() {
    nthreads = 0;
    for (int t = 0; t < MAXT; ++t) { T[t].used = false; T[t].done = false; T[t].started = false; T[t].blockedOn = 0; T[t].steps = 0; }
    ++region;
    if (tracing && traceFile) {
      uint64_t rec[2] = { ((uint64_t) 8 << 48) | (uint64_t) region, 0 };
      fwrite(rec, sizeof(rec), 1, traceFile);
    }
    return region;
  }

  void mark(int kind, const void *addr) {
    if (selfId == 0 || !active) {
      // markers written by the main thread between regions (e.g. "a new kernel launch starts")
      if (tracing && traceFile) { uint64_t rec[2] = { ((uint64_t) kind << 48), (uint64_t) addr }; fwrite(rec, sizeof(rec), 1, traceFile); }
      return;
    }
    point(kind, addr, 0);
  }

  // Barrier among `count` threads of the current region identified by `tag` (one tag per thread block).
  // Arrival is a scheduling point and a trace record (kind 6).
  struct Barrier { const void *tag; int arrived; };
  static Barrier B[64];
  void barrier(const void *tag, int count) {
    point(6, tag, 0);
    const int me = selfId;
    if (!active || me == 0 || count <= 1) return;
    Barrier *b = 0;
    for (int i = 0; i < 64; ++i) { if (B[i].tag == tag) { b = &B[i]; break; } }
    if (!b) for (int i = 0; i < 64; ++i) { if (B[i].tag == 0) { b = &B[i]; b->tag = tag; b->arrived = 0; break; } }
    if (!b) report("engine", "barrier table full");
    if (++b->arrived >= count) {
      b->arrived = 0;
      wake(tag);
      return;
    }
    T[me].blockedOn = tag;
    const int next = pickDefault(me);
    if (!next) report("barrier-divergence", "thread %d waits at a barrier that the other threads of its block never reach", me);
    switchTo(next);
  }

  void setTrace(const char *file) { tracing = true; traceFile = fopen(file, "wb"); }

  void setChecking(bool on) { checking = on; }

  void run(int first) {
    sem_init(&mainSem, 0, 0);
    if (nthreads == 0) return;
    active = true;
    current = (first >= 1 && first <= nthreads) ? first : 1;
    sem_post(&T[current].sem);
    sem_wait(&mainSem);
    active = false;
    for (int t = 1; t <= nthreads; ++t) pthread_join(T[t].handle, 0);
    if (traceFile) fflush(traceFile);
  }

  void closeTrace() { if (traceFile) { fclose(traceFile); traceFile = 0; } }

  long heapAllocs() { return nAllocs; }
  long heapFrees() { return nFrees; }
}

//---[ allocator entry points ]-----------------------------------------------
extern "C" {
  void *malloc(size_t n) { return sim::alloc(n, 16); }
  void free(void *p) { sim::release(p); }
  void *calloc(size_t a, size_t b) { void *p = sim::alloc(a * b, 16); if (p) memset(p, 0, a * b); return p; }
  void *realloc(void *p, size_t n) {
    if (!p) return sim::alloc(n, 16);
    if (!sim::inArena(p)) { void *q = sim::alloc(n, 16); return q; }
    sim::Hdr *h = (sim::Hdr*) ((char*) p - sizeof(sim::Hdr));
    void *q = sim::alloc(n, 16);
    if (q) memcpy(q, p, h->size < n ? h->size : n);
    sim::release(p);
    return q;
  }
  int posix_memalign(void **out, size_t align, size_t n) { *out = sim::alloc(n, align); return *out ? 0 : ENOMEM; }
  void *aligned_alloc(size_t align, size_t n) { return sim::alloc(n, align); }
  void *memalign(size_t align, size_t n) { return sim::alloc(n, align); }
  void *valloc(size_t n) { return sim::alloc(n, 4096); }
  size_t malloc_usable_size(void *p) { if (!p || !sim::inArena(p)) return 0; return ((sim::Hdr*) ((char*) p - sizeof(sim::Hdr)))->size; }
}

//---[ pthread mutex interposition ]-------------------------------------------
extern "C" {
  int pthread_mutex_lock(pthread_mutex_t *m) {
    using namespace sim;
    point(3, m, 0);
    const int me = selfId;
    Mutex &mx = mutexOf(m);
    const bool recursive = (m->__data.__kind & 3) == PTHREAD_MUTEX_RECURSIVE_NP;
    while (true) {
      if (mx.owner == -1) { mx.owner = me; mx.count = 1; return 0; }
      if (mx.owner == me) {
        if (recursive) { ++mx.count; return 0; }
        report("deadlock", "thread %d locks mutex %p which it already holds", me, (void*) m);
      }
      if (!active || me == 0) report("engine", "mutex %p held by thread %d while the scheduler is not running", (void*) m, mx.owner);
      T[me].blockedOn = m;
      const int next = pickDefault(me);
      if (!next) report("deadlock", "thread %d waits for mutex %p held by thread %d and nothing else can run", me, (void*) m, mx.owner);
      switchTo(next);
    }
  }
  int pthread_mutex_trylock(pthread_mutex_t *m) {
    using namespace sim;
    point(3, m, 0);
    Mutex &mx = mutexOf(m);
    if (mx.owner == -1) { mx.owner = selfId; mx.count = 1; return 0; }
    if (mx.owner == selfId && (m->__data.__kind & 3) == PTHREAD_MUTEX_RECURSIVE_NP) { ++mx.count; return 0; }
    return EBUSY;
  }
  int pthread_mutex_unlock(pthread_mutex_t *m) {
    using namespace sim;
    Mutex &mx = mutexOf(m);
    if (mx.owner == selfId) {
      if (--mx.count <= 0) { mx.owner = -1; mx.count = 0; wake(m); }
    } else if (mx.owner == -1) {
      // unlock of a mutex nobody holds: undefined behaviour in POSIX.  With the futex implementation nothing happens
      // in this schedule, but the same call releases the lock under another thread whenever one happens to hold it
      // (the schedule-independent form of unlock-of-foreign-mutex), so it is reported
      if (active && checking) {
        ++strayUnlocks;
        report("unlock-of-unheld-mutex", "thread %d unlocks mutex %p which nobody holds (in another schedule this releases it under its owner)",
               selfId, (void*) m);
      }
    } else {
      // Unlocking a mutex that ANOTHER thread holds: the futex implementation releases it, so the owner's
      // critical section silently loses its protection.  Undefined behaviour in POSIX; reported.
      if (active && checking)
        report("unlock-of-foreign-mutex", "thread %d unlocks mutex %p which thread %d holds: that thread's critical section is no longer exclusive",
               selfId, (void*) m, mx.owner);
      mx.owner = -1; mx.count = 0; wake(m);
    }
    point(4, m, 0);
    return 0;
  }
}

//---[ TSan compiler ABI ]------------------------------------------------------
#define ACC(addr, n, w) do { sim::checkAccess(addr, n, w); sim::point(w ? 2 : 1, addr, n); } while (0)
extern "C" {
  void __tsan_init() {}
  void __tsan_func_entry(void *) {}
  void __tsan_func_exit() {}
  void __tsan_read1(void *a) { ACC(a, 1, false); }
  void __tsan_read2(void *a) { ACC(a, 2, false); }
  void __tsan_read4(void *a) { ACC(a, 4, false); }
  void __tsan_read8(void *a) { ACC(a, 8, false); }
  void __tsan_read16(void *a) { ACC(a, 16, false); }
  void __tsan_write1(void *a) { ACC(a, 1, true); }
  void __tsan_write2(void *a) { ACC(a, 2, true); }
  void __tsan_write4(void *a) { ACC(a, 4, true); }
  void __tsan_write8(void *a) { ACC(a, 8, true); }
  void __tsan_write16(void *a) { ACC(a, 16, true); }
  void __tsan_unaligned_read2(void *a) { ACC(a, 2, false); }
  void __tsan_unaligned_read4(void *a) { ACC(a, 4, false); }
  void __tsan_unaligned_read8(void *a) { ACC(a, 8, false); }
  void __tsan_unaligned_read16(void *a) { ACC(a, 16, false); }
  void __tsan_unaligned_write2(void *a) { ACC(a, 2, true); }
  void __tsan_unaligned_write4(void *a) { ACC(a, 4, true); }
  void __tsan_unaligned_write8(void *a) { ACC(a, 8, true); }
  void __tsan_unaligned_write16(void *a) { ACC(a, 16, true); }
  void __tsan_read_range(void *a, unsigned long n) { if (n) { ACC(a, n > 0xffff ? 0xffff : n, false); } }
  void __tsan_write_range(void *a, unsigned long n) { if (n) { ACC(a, n > 0xffff ? 0xffff : n, true); } }
  void __tsan_vptr_update(void **a, void *) { ACC(a, 8, true); }
  void __tsan_vptr_read(void **a) { ACC(a, 8, false); }
  void __tsan_read1_pc(void *a, void *) { ACC(a, 1, false); }
  void __tsan_read2_pc(void *a, void *) { ACC(a, 2, false); }
  void __tsan_read4_pc(void *a, void *) { ACC(a, 4, false); }
  void __tsan_read8_pc(void *a, void *) { ACC(a, 8, false); }
  void __tsan_write1_pc(void *a, void *) { ACC(a, 1, true); }
  void __tsan_write2_pc(void *a, void *) { ACC(a, 2, true); }
  void __tsan_write4_pc(void *a, void *) { ACC(a, 4, true); }
  void __tsan_write8_pc(void *a, void *) { ACC(a, 8, true); }

#define ATOMICS(N, T) \
  T __tsan_atomic##N##_load(const volatile T *a, int) { sim::checkAccess((const void*) a, sizeof(T), false); sim::point(5, (const void*) a, sizeof(T)); return __atomic_load_n(a, __ATOMIC_SEQ_CST); } \
  void __tsan_atomic##N##_store(volatile T *a, T v, int) { sim::checkAccess((const void*) a, sizeof(T), true); sim::point(5, (const void*) a, sizeof(T)); __atomic_store_n(a, v, __ATOMIC_SEQ_CST); } \
  T __tsan_atomic##N##_exchange(volatile T *a, T v, int) { sim::checkAccess((const void*) a, sizeof(T), true); sim::point(5, (const void*) a, sizeof(T)); return __atomic_exchange_n(a, v, __ATOMIC_SEQ_CST); } \
  T __tsan_atomic##N##_fetch_add(volatile T *a, T v, int) { sim::checkAccess((const void*) a, sizeof(T), true); sim::point(5, (const void*) a, sizeof(T)); return __atomic_fetch_add(a, v, __ATOMIC_SEQ_CST); } \
  T __tsan_atomic##N##_fetch_sub(volatile T *a, T v, int) { sim::checkAccess((const void*) a, sizeof(T), true); sim::point(5, (const void*) a, sizeof(T)); return __atomic_fetch_sub(a, v, __ATOMIC_SEQ_CST); } \
  T __tsan_atomic##N##_fetch_and(volatile T *a, T v, int) { sim::point(5, (const void*) a, sizeof(T)); return __atomic_fetch_and(a, v, __ATOMIC_SEQ_CST); } \
  T __tsan_atomic##N##_fetch_or(volatile T *a, T v, int) { sim::point(5, (const void*) a, sizeof(T)); return __atomic_fetch_or(a, v, __ATOMIC_SEQ_CST); } \
  T __tsan_atomic##N##_fetch_xor(volatile T *a, T v, int) { sim::point(5, (const void*) a, sizeof(T)); return __atomic_fetch_xor(a, v, __ATOMIC_SEQ_CST); } \
  T __tsan_atomic##N##_fetch_nand(volatile T *a, T v, int) { sim::point(5, (const void*) a, sizeof(T)); return __atomic_fetch_nand(a, v, __ATOMIC_SEQ_CST); } \
  int __tsan_atomic##N##_compare_exchange_strong(volatile T *a, T *c, T v, int, int) { sim::point(5, (const void*) a, sizeof(T)); return __atomic_compare_exchange_n(a, c, v, 0, __ATOMIC_SEQ_CST, __ATOMIC_SEQ_CST); } \
  int __tsan_atomic##N##_compare_exchange_weak(volatile T *a, T *c, T v, int, int) { sim::point(5, (const void*) a, sizeof(T)); return __atomic_compare_exchange_n(a, c, v, 0, __ATOMIC_SEQ_CST, __ATOMIC_SEQ_CST); } \
  T __tsan_atomic##N##_compare_exchange_val(volatile T *a, T c, T v, int, int) { sim::point(5, (const void*) a, sizeof(T)); __atomic_compare_exchange_n(a, &c, v, 0, __ATOMIC_SEQ_CST, __ATOMIC_SEQ_CST); return c; }
  ATOMICS(8, unsigned char)
  ATOMICS(16, unsigned short)
  ATOMICS(32, unsigned int)
  ATOMICS(64, unsigned long)
  void __tsan_atomic_thread_fence(int) { __atomic_thread_fence(__ATOMIC_SEQ_CST); }
  void __tsan_atomic_signal_fence(int) {}
}

//---[ simulated clock and entropy ]---------------------------------------------
// Temp-file names and build dates inside libocca come from time() and std::random_device; both are
// replaced by deterministic streams so that a run is a pure function of its inputs.
#include <ctime>
#include <sys/time.h>
namespace sim {
  static unsigned long long simClockNs = 1700000000ull * 1000000000ull;
  static unsigned long long entropyCalls = 0;
  static unsigned long long entropyBase = 0;
  static bool entropyPerProcess = true;     // until a run starts, processes must not share temp-file names
  void resetEntropy() { entropyPerProcess = false; entropyBase = 0; entropyCalls = 0; simClockNs = 1700000000ull * 1000000000ull; }
}
extern "C" {
  time_t time(time_t *t) { sim::simClockNs += 1000; time_t v = (time_t) (sim::simClockNs / 1000000000ull); if (t) *t = v; return v; }
  int gettimeofday(struct timeval *tv, void *) {
    sim::simClockNs += 1000;
    if (tv) { tv->tv_sec = sim::simClockNs / 1000000000ull; tv->tv_usec = (sim::simClockNs % 1000000000ull) / 1000; }
    return 0;
  }
  int clock_gettime(clockid_t, struct timespec *ts) {
    sim::simClockNs += 1000;
    if (ts) { ts->tv_sec = sim::simClockNs / 1000000000ull; ts->tv_nsec = sim::simClockNs % 1000000000ull; }
    return 0;
  }
  // unsigned int std::random_device::_M_getval()
  unsigned int _ZNSt13random_device9_M_getvalEv(void *) {
    if (sim::entropyPerProcess && !sim::entropyBase) sim::entropyBase = (unsigned long long) getpid() * 0x2545F4914F6CDD1Dull;
    unsigned long long x = (sim::entropyBase + (++sim::entropyCalls)) * 0x9E3779B97F4A7C15ull;
    x = (x ^ (x >> 30)) * 0xBF58476D1CE4E5B9ull;
    x = (x ^ (x >> 27)) * 0x94D049BB133111EBull;
    return 1000000000u + (unsigned int) ((x ^ (x >> 31)) % 3000000000ull);   // always ten digits
  }
}
