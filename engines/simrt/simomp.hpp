#ifndef SIMOMP_HPP
#define SIMOMP_HPP
namespace simomp {
  extern int teamSize;             // threads per team
  extern unsigned long chunkState; // seed of the chunk-size stream (runtime / dynamic schedules)
  extern int maxChunk;
  extern int firstThread;          // which team member runs first
  extern long regions, chunksHanded;
  extern long stepLog[4096][3];    // (region, thread, scheduling points) of every finished team member
  extern int nStepLog;
}
#endif
