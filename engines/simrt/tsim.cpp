// tsim — C30 harness: the handlesim operation interpreter spread over simulated threads.
//
// protocol (stdin):
//   RUN <nthreads> <nswitches> <trace:0|1> <nprolog> <nepilog> <first>
//   <prolog ops>                       executed by the main thread before the workers start
//   T <tid> <nops>  + ops              one block per worker (tid = 1..nthreads)
//   S <tid> <localstep> <target>       scripted context switches
//   <epilog ops>                       executed by the main thread after the join
// stdout: "P <result>" per prolog op, "W <tid> <result>" per worker op (in op order per worker),
//         "E <result>" per epilog op, "STEPS <tid> <n>", "FIRED <n>", then one observation block ("." terminated);
//         the fork-server parent adds "STATUS <exit> <signal>".
#define HSIM_NO_MAIN
#include <sys/resource.h>
#include "../handlesim/hsim.cpp"
#include "simrt.hpp"

struct Work { int tid; std::vector<std::string> ops; std::vector<std::string> results; };
static std::vector<Work> works;

static std::string runOne(const std::string &line) {
  std::vector<std::string> t;
  std::istringstream is(line);
  std::string w;
  while (is >> w) t.push_back(w);
  if (t.empty()) t.push_back("nop");
  try {
    exec(t);
    return "ok";
  } catch (occa::exception &e) {
    return "exc " + oneLine(e.message);
  } catch (Skip &) {
    return "skip";
  }
}

static void worker(void *arg) {
  Work &w = *(Work*) arg;
  for (size_t i = 0; i < w.ops.size(); ++i) w.results.push_back(runOne(w.ops[i]));
}

static void runScenario(int nthreads, const std::vector<std::string> &prolog, const std::vector<std::string> &epilog,
                        const std::vector<std::string> &switches, bool trace, const char *traceFile, int first) {
  for (int j = 0; j < NH; ++j) {
    H[j] = (unsigned char*) malloc(HBYTES);
    for (int i = 0; i < HBYTES; ++i) H[j][i] = (unsigned char) (0x40 + 16 * j + (i % 13));
  }
  sim::setChecking(true);
  sim::resetEntropy();
  for (size_t i = 0; i < prolog.size(); ++i) printf("PR %s\n", runOne(prolog[i]).c_str());
  for (size_t i = 0; i < switches.size(); ++i) {
    int a; long b; int c;
    if (sscanf(switches[i].c_str(), "S %d %ld %d", &a, &b, &c) == 3) sim::addSwitch(a, b, c);
  }
  if (trace) sim::setTrace(traceFile);
  for (size_t i = 0; i < works.size(); ++i) sim::spawn(worker, &works[i]);
  sim::run(first);
  sim::closeTrace();
  for (size_t i = 0; i < works.size(); ++i)
    for (size_t k = 0; k < works[i].results.size(); ++k) printf("WR %d %s\n", works[i].tid, works[i].results[k].c_str());
  for (size_t i = 0; i < epilog.size(); ++i) printf("ER %s\n", runOne(epilog[i]).c_str());
  for (size_t i = 0; i < works.size(); ++i) printf("STEPS %d %ld\n", works[i].tid, sim::steps(works[i].tid));
  printf("FIRED %ld\n", sim::fired());
  observe();
}

int main(int argc, char **argv) {
  setvbuf(stdout, 0, _IOFBF, 1 << 16);
  const char *traceFile = argc > 1 ? argv[1] : "/dev/null";
  {
    occa::device warm({{"mode", "Serial"}});
    occa::kernel k0 = warm.buildKernelFromString(KSRC[0], "k0");
    occa::kernel k1 = warm.buildKernelFromString(KSRC[1], "k1");
    occa::device warm2({{"mode", "OpenMP"}});
    occa::kernel k2 = warm2.buildKernelFromString(KSRC[0], "k0");
    occa::kernel k3 = warm2.buildKernelFromString(KSRC[1], "k1");
  }
  for (int k = 0; k < occa::verif::kKindCount; ++k) { occa::verif::created[k] = 0; occa::verif::destroyed[k] = 0; }
  printf("READY\n");
  fflush(stdout);
  std::string line;
  while (std::getline(std::cin, line)) {
    if (line == "QUIT") break;
    if (line.compare(0, 4, "RUN ") != 0) continue;
    int nthreads = 0, nsw = 0, trace = 0, npro = 0, nepi = 0, first = 1;
    sscanf(line.c_str(), "RUN %d %d %d %d %d %d", &nthreads, &nsw, &trace, &npro, &nepi, &first);
    std::vector<std::string> prolog, epilog, switches;
    works.clear();
    for (int i = 0; i < npro; ++i) { std::getline(std::cin, line); prolog.push_back(line); }
    for (int t = 0; t < nthreads; ++t) {
      std::getline(std::cin, line);
      int tid = 0, n = 0;
      sscanf(line.c_str(), "T %d %d", &tid, &n);
      Work w; w.tid = tid;
      for (int i = 0; i < n; ++i) { std::getline(std::cin, line); w.ops.push_back(line); }
      works.push_back(w);
    }
    for (int i = 0; i < nsw; ++i) { std::getline(std::cin, line); switches.push_back(line); }
    for (int i = 0; i < nepi; ++i) { std::getline(std::cin, line); epilog.push_back(line); }
    fflush(stdout);
    pid_t pid = fork();
    if (pid == 0) {
      // a run takes well under a second: sixty seconds of CPU time mean it does not terminate (SIGXCPU -> "hang")
      struct rlimit rl; rl.rlim_cur = 60; rl.rlim_max = 62;
      setrlimit(RLIMIT_CPU, &rl);
      runScenario(nthreads, prolog, epilog, switches, trace != 0, traceFile, first);
      fflush(stdout);
      _exit(0);
    }
    int st = 0;
    waitpid(pid, &st, 0);
    printf("STATUS %d %d\n", WIFEXITED(st) ? WEXITSTATUS(st) : -1, WIFSIGNALED(st) ? WTERMSIG(st) : 0);
    fflush(stdout);
  }
  return 0;
}
