// ksim — C21 harness: runs the Serial and the OpenMP translation of one OKL kernel (both compiled by
// the real g++, the OpenMP one with -fopenmp -fsanitize=thread and NOT linked against libgomp/libtsan)
// on the same inputs; the OpenMP one runs on the simulated OpenMP runtime under a scripted schedule.
//
// stdin:  RUN <serial.so> <omp.so> <n> <team> <chunkseed> <maxchunk> <first> <dataseed> <trace> <nswitch>
//         S <region> <tid> <step> <target>    (nswitch lines)
// stdout: SER <hex>   OMP <hex>   REGIONS <r>   STEPS <region> <tid> <n> ...   FIRED <k>   CHUNKS <c>
//         then the fork-server parent prints STATUS <exit> <signal>
#include <sys/resource.h>
#include <cstdio>
#include <cstdlib>
#include <cstring>
#include <dlfcn.h>
#include <iostream>
#include <string>
#include <sys/wait.h>
#include <unistd.h>
#include <vector>

#include "simrt.hpp"
#include "simomp.hpp"

static const int NIN = 64, NOUT = 64, NF = 8;
typedef void (*kernel_t)(const int*, const int*, const int*, int*, int*, float*);

struct Data { int *in0, *in1, *out0, *out1; float *fout; };

static Data makeData(unsigned long seed) {
  Data d;
  d.in0 = (int*) malloc(NIN * sizeof(int)); d.in1 = (int*) malloc(NIN * sizeof(int));
  d.out0 = (int*) malloc(NOUT * sizeof(int)); d.out1 = (int*) malloc(NOUT * sizeof(int));
  d.fout = (float*) malloc(NF * sizeof(float));
  unsigned long x = seed * 2862933555777941757ul + 3037000493ul;
  for (int i = 0; i < NIN; ++i) { x ^= x << 13; x ^= x >> 7; x ^= x << 17; d.in0[i] = (int) (x % 10); d.in1[i] = (int) ((x >> 20) % 7); }
  for (int i = 0; i < NOUT; ++i) { d.out0[i] = 0; d.out1[i] = 0; }
  for (int i = 0; i < NF; ++i) d.fout[i] = 0.0f;
  return d;
}

static void dump(const char *tag, const Data &d) {
  printf("%s ", tag);
  const unsigned char *p = (const unsigned char*) d.out0;
  for (size_t i = 0; i < NOUT * sizeof(int); ++i) printf("%02x", p[i]);
  p = (const unsigned char*) d.out1;
  for (size_t i = 0; i < NOUT * sizeof(int); ++i) printf("%02x", p[i]);
  p = (const unsigned char*) d.fout;
  for (size_t i = 0; i < NF * sizeof(float); ++i) printf("%02x", p[i]);
  printf("\n");
}

static kernel_t load(const char *file) {
  void *h = dlopen(file, RTLD_NOW | RTLD_LOCAL);
  if (!h) { fprintf(stderr, "ksim: dlopen %s: %s\n", file, dlerror()); _exit(81); }
  void *f = dlsym(h, "k");
  if (!f) { fprintf(stderr, "ksim: no symbol k in %s\n", file); _exit(82); }
  return (kernel_t) f;
}

int main(int argc, char **argv) {
  setvbuf(stdout, 0, _IOFBF, 1 << 16);
  const char *traceFile = argc > 1 ? argv[1] : "/dev/null";
  printf("READY\n");
  fflush(stdout);
  std::string line;
  while (std::getline(std::cin, line)) {
    if (line == "QUIT") break;
    if (line.compare(0, 4, "RUN ") != 0) continue;
    char ser[512], omp[512];
    int n = 0, team = 2, maxchunk = 3, first = 1, trace = 0, nsw = 0;
    unsigned long chunkseed = 1, dataseed = 1;
    sscanf(line.c_str(), "RUN %511s %511s %d %d %lu %d %d %lu %d %d", ser, omp, &n, &team, &chunkseed, &maxchunk, &first, &dataseed, &trace, &nsw);
    std::vector<std::string> sw;
    for (int i = 0; i < nsw; ++i) { std::getline(std::cin, line); sw.push_back(line); }
    fflush(stdout);
    pid_t pid = fork();
    if (pid == 0) {
      // a run takes well under a second: sixty seconds of CPU time mean it does not terminate (SIGXCPU -> "hang")
      struct rlimit rl; rl.rlim_cur = 60; rl.rlim_max = 62;
      setrlimit(RLIMIT_CPU, &rl);
      sim::setChecking(true);
      sim::resetEntropy();
      kernel_t ks = load(ser), ko = load(omp);
      Data a = makeData(dataseed), b = makeData(dataseed);
      ks(&n, a.in0, a.in1, a.out0, a.out1, a.fout);
      dump("SER", a);
      simomp::teamSize = team; simomp::chunkState = chunkseed ? chunkseed : 1; simomp::maxChunk = maxchunk > 0 ? maxchunk : 1;
      simomp::firstThread = first;
      for (size_t i = 0; i < sw.size(); ++i) {
        int r, t, u; long k;
        if (sscanf(sw[i].c_str(), "S %d %d %ld %d", &r, &t, &k, &u) == 4) sim::addSwitch(t, k, u, r);
      }
      if (trace) sim::setTrace(traceFile);
      ko(&n, b.in0, b.in1, b.out0, b.out1, b.fout);
      sim::closeTrace();
      dump("OMP", b);
      printf("REGIONS %ld\n", simomp::regions);
      for (int i = 0; i < simomp::nStepLog; ++i) printf("STEPS %ld %ld %ld\n", simomp::stepLog[i][0], simomp::stepLog[i][1], simomp::stepLog[i][2]);
      printf("FIRED %ld\nCHUNKS %ld\n", sim::fired(), simomp::chunksHanded);
      fflush(stdout);
      _exit(0);
    }
    int st = 0;
    waitpid(pid, &st, 0);
    printf("STATUS %d %d\n", WIFEXITED(st) ? WEXITSTATUS(st) : -1, WIFSIGNALED(st) ? WTERMSIG(st) : 0);
    fflush(stdout);
  }
  return 0;
}
