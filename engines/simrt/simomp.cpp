// simomp — a simulated OpenMP runtime on top of simrt (the real libgomp is not linked).
// g++'s lowering of the pragmas is real; what a team is, who gets which chunk and who runs
// when is decided by the simulator.
#include "simrt.hpp"
#include "simomp.hpp"

#include <pthread.h>
#include <cstdio>

namespace simomp {
  int teamSize = 4;
  unsigned long chunkState = 1;      // seeded stream of chunk sizes for runtime/dynamic schedules
  int maxChunk = 3;
  long regions = 0, chunksHanded = 0;
  long stepLog[4096][3];
  int nStepLog = 0;

  static bool inRegion = false;
  static long loopsStarted = 0;      // work-sharing loops set up so far in the current region
  static int curTeam = 1;
  static pthread_mutex_t criticalMutex = PTHREAD_MUTEX_INITIALIZER;
  static pthread_mutex_t atomicMutex = PTHREAD_MUTEX_INITIALIZER;
  static pthread_mutex_t loopMutex = PTHREAD_MUTEX_INITIALIZER;

  struct Task { void (*fn)(void*); void *data; };
  static Task task;
  static void trampoline(void *) { task.fn(task.data); }

  // shared loop state of the current work-sharing construct
  static long loopNext, loopEnd, loopIncr, loopChunk;

  static unsigned long rnd() {
    chunkState ^= chunkState << 13; chunkState ^= chunkState >> 7; chunkState ^= chunkState << 17;
    return chunkState;
  }

  static void parallel(void (*fn)(void*), void *data, unsigned num_threads) {
    if (inRegion) { fn(data); return; }        // nested region: a team of one
    inRegion = true;
    ++regions;
    curTeam = num_threads ? (int) num_threads : teamSize;
    if (curTeam < 1) curTeam = 1;
    task.fn = fn; task.data = data;
    loopsStarted = 0;                          // team members are fresh threads: their own counters start at 0
    sim::beginRegion();
    for (int t = 0; t < curTeam; ++t) sim::spawn(trampoline, 0);
    sim::run(firstThread >= 1 && firstThread <= curTeam ? firstThread : 1);
    for (int t = 1; t <= curTeam && nStepLog < 4096; ++t) { stepLog[nStepLog][0] = regions; stepLog[nStepLog][1] = t; stepLog[nStepLog][2] = sim::steps(t); ++nStepLog; }
    inRegion = false;
  }

  int firstThread = 1;

  static bool nextChunk(long *s, long *e) {
    pthread_mutex_lock(&loopMutex);            // a scheduling point: who asks first is up to the schedule
    bool more = false;
    if ((loopIncr > 0 && loopNext < loopEnd) || (loopIncr < 0 && loopNext > loopEnd)) {
      long c = loopChunk > 0 ? loopChunk : (long) (1 + rnd() % (unsigned long) maxChunk);
      long b = loopNext, x = loopNext + c * loopIncr;
      if ((loopIncr > 0 && x > loopEnd) || (loopIncr < 0 && x < loopEnd)) x = loopEnd;
      loopNext = x;
      *s = b; *e = x;
      more = true;
      ++chunksHanded;
    }
    pthread_mutex_unlock(&loopMutex);
    return more;
  }
}

extern "C" {
  void GOMP_parallel(void (*fn)(void*), void *data, unsigned num_threads, unsigned) { simomp::parallel(fn, data, num_threads); }
  int omp_get_num_threads() { return simomp::inRegion ? simomp::curTeam : 1; }
  int omp_get_thread_num() { return simomp::inRegion && sim::self() > 0 ? sim::self() - 1 : 0; }
  int omp_get_max_threads() { return simomp::teamSize; }
  int omp_in_parallel() { return simomp::inRegion ? 1 : 0; }
  void omp_set_num_threads(int n) { if (n > 0) simomp::teamSize = n; }
  int omp_get_num_procs() { return simomp::teamSize; }

  void GOMP_critical_start() { pthread_mutex_lock(&simomp::criticalMutex); }
  void GOMP_critical_end() { pthread_mutex_unlock(&simomp::criticalMutex); }
  // a named critical region excludes only the regions of the same name: one lock per name (libgomp hands us the
  // address of a pointer-sized slot per name; one thread runs at a time, so the lazy initialisation cannot race)
  static pthread_mutex_t *namedCritical(void **p) {
    if (!*p) {
      pthread_mutex_t *m = new pthread_mutex_t;
      pthread_mutex_init(m, 0);
      *p = m;
    }
    return (pthread_mutex_t*) *p;
  }
  void GOMP_critical_name_start(void **p) { pthread_mutex_lock(namedCritical(p)); }
  void GOMP_critical_name_end(void **p) { pthread_mutex_unlock(namedCritical(p)); }
  void GOMP_atomic_start() { pthread_mutex_lock(&simomp::atomicMutex); }
  void GOMP_atomic_end() { pthread_mutex_unlock(&simomp::atomicMutex); }
  void GOMP_barrier() { sim::report("engine", "GOMP_barrier is not expected in translated OKL kernels"); }

  static void startLoop(long start, long end, long incr, long chunk) {
    simomp::loopNext = start; simomp::loopEnd = end; simomp::loopIncr = incr; simomp::loopChunk = chunk;
  }
  void GOMP_parallel_loop_maybe_nonmonotonic_runtime(void (*fn)(void*), void *data, unsigned nt, long start, long end, long incr, unsigned) {
    startLoop(start, end, incr, 0); simomp::parallel(fn, data, nt);
  }
  void GOMP_parallel_loop_nonmonotonic_runtime(void (*fn)(void*), void *data, unsigned nt, long start, long end, long incr, unsigned) {
    startLoop(start, end, incr, 0); simomp::parallel(fn, data, nt);
  }
  void GOMP_parallel_loop_runtime(void (*fn)(void*), void *data, unsigned nt, long start, long end, long incr, unsigned) {
    startLoop(start, end, incr, 0); simomp::parallel(fn, data, nt);
  }
  void GOMP_parallel_loop_nonmonotonic_dynamic(void (*fn)(void*), void *data, unsigned nt, long start, long end, long incr, long chunk, unsigned) {
    startLoop(start, end, incr, chunk); simomp::parallel(fn, data, nt);
  }
  void GOMP_parallel_loop_dynamic(void (*fn)(void*), void *data, unsigned nt, long start, long end, long incr, long chunk, unsigned) {
    startLoop(start, end, incr, chunk); simomp::parallel(fn, data, nt);
  }
  bool GOMP_loop_maybe_nonmonotonic_runtime_next(long *s, long *e) { return simomp::nextChunk(s, e); }
  bool GOMP_loop_nonmonotonic_runtime_next(long *s, long *e) { return simomp::nextChunk(s, e); }
  bool GOMP_loop_runtime_next(long *s, long *e) { return simomp::nextChunk(s, e); }
  bool GOMP_loop_nonmonotonic_dynamic_next(long *s, long *e) { return simomp::nextChunk(s, e); }
  bool GOMP_loop_dynamic_next(long *s, long *e) { return simomp::nextChunk(s, e); }
  // non-combined work-sharing loops inside a parallel region: the first team member to arrive sets the loop up
  static __thread long myLoops = 0;
  static bool startShared(long start, long end, long incr, long chunk, long *s, long *e) {
    pthread_mutex_lock(&simomp::loopMutex);
    if (myLoops == simomp::loopsStarted) { startLoop(start, end, incr, chunk); ++simomp::loopsStarted; }
    ++myLoops;
    pthread_mutex_unlock(&simomp::loopMutex);
    return simomp::nextChunk(s, e);
  }
  bool GOMP_loop_nonmonotonic_dynamic_start(long start, long end, long incr, long chunk, long *s, long *e) { return startShared(start, end, incr, chunk, s, e); }
  bool GOMP_loop_dynamic_start(long start, long end, long incr, long chunk, long *s, long *e) { return startShared(start, end, incr, chunk, s, e); }
  bool GOMP_loop_maybe_nonmonotonic_runtime_start(long start, long end, long incr, long *s, long *e) { return startShared(start, end, incr, 0, s, e); }
  bool GOMP_loop_nonmonotonic_runtime_start(long start, long end, long incr, long *s, long *e) { return startShared(start, end, incr, 0, s, e); }
  bool GOMP_loop_runtime_start(long start, long end, long incr, long *s, long *e) { return startShared(start, end, incr, 0, s, e); }
  void GOMP_loop_end_nowait() {}
  void GOMP_loop_end() {}
}
