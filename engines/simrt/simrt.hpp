// simrt — deterministic thread scheduler behind the TSan compiler ABI (see simrt.cpp)
#ifndef SIMRT_HPP
#define SIMRT_HPP
namespace sim {
  typedef void (*fn_t)(void*);
  extern bool active;
  int  spawn(fn_t fn, void *arg);                  // create a simulated thread (ids 1..n); it starts when run() is called
  void addSwitch(int tid, long step, int target, int region = -1);  // scripted schedule: when `tid` reaches its `step`-th scheduling point (in `region`), run `target`
  int  beginRegion();                              // start a new team (thread ids restart at 1); returns the region number
  void mark(int kind, const void *addr);           // an explicit scheduling point / trace record (kinds >= 6 are free for runtimes)
  void closeTrace();
  void resetEntropy();                             // start of a run: simulated clock and entropy restart from fixed values
  void barrier(const void *tag, int count);         // barrier among `count` threads of the current region
  void setTrace(const char *file);                 // record every scheduling point (thread, kind, size, step, address)
  void setChecking(bool on);                       // heap checker reports are fatal only while on
  void run(int first);                             // run all spawned threads to completion (default policy: lowest id runnable)
  int  self();
  long steps(int tid);
  long fired();
  long heapAllocs();
  long heapFrees();
  void report(const char *kind, const char *fmt, ...) __attribute__((noreturn));
}
#endif
