// Stand-in for <occa/core/kernel.hpp> used to compile the host launcher that OCCA emits for the GPU
// backends: occa::dim, occa::kernel::setRunDims and the call operator forward to the emulator.
#ifndef GPUSIM_OCCA_KERNEL_STANDIN
#define GPUSIM_OCCA_KERNEL_STANDIN
namespace occa {
  struct modeKernel_t { int index; };
  struct modeMemory_t;
  struct dim {
    int dims; unsigned v[3];
    dim() : dims(0) { v[0] = v[1] = v[2] = 1; }
    unsigned &operator[](int i) { return v[i]; }
  };
}
extern "C" void gpusim_dispatch(int kernel, const unsigned *outer, const unsigned *inner, int n,
                                void *in0, void *in1, void *out0, void *out1, void *fout);
namespace occa {
  class kernel {
    modeKernel_t *mk; dim outer, inner;
  public:
    kernel(modeKernel_t *m) : mk(m) {}
    void setRunDims(dim o, dim i) { outer = o; inner = i; }
    void operator()(const int &n, modeMemory_t *a, modeMemory_t *b, modeMemory_t *c, modeMemory_t *d, modeMemory_t *e) {
      gpusim_dispatch(mk->index, outer.v, inner.v, n, (void*) a, (void*) b, (void*) c, (void*) d, (void*) e);
    }
  };
}
#endif
