#include "../cuda_shim.h"
#define hipThreadIdx_x gpusim_threadIdx.x
#define hipThreadIdx_y gpusim_threadIdx.y
#define hipThreadIdx_z gpusim_threadIdx.z
#define hipBlockIdx_x gpusim_blockIdx.x
#define hipBlockIdx_y gpusim_blockIdx.y
#define hipBlockIdx_z gpusim_blockIdx.z
