// Common device-side helpers for all dialect shims (compiled into the instrumented kernel object, so
// every atomic below is seen by the simulator as an atomic access).
#ifndef GPUSIM_DEVICE_H
#define GPUSIM_DEVICE_H
#include <string.h>
#include <stdint.h>
extern "C" {
  struct gpusim_dim3 { unsigned x, y, z; };
  extern __thread gpusim_dim3 gpusim_threadIdx, gpusim_blockIdx;
  extern gpusim_dim3 gpusim_blockDim, gpusim_gridDim;
  void gpusim_launch(void (*body)(void*), void *arg, gpusim_dim3 grid, gpusim_dim3 block);
  void gpusim_barrier();
  void gpusim_launch_bounds_violation(int kernel, unsigned bx, unsigned by, unsigned bz, const char *declared);
}
static inline int gpusim_aadd(int *p, int v) { return __atomic_fetch_add(p, v, __ATOMIC_RELAXED); }
static inline unsigned gpusim_aadd(unsigned *p, unsigned v) { return __atomic_fetch_add(p, v, __ATOMIC_RELAXED); }
static inline long gpusim_aadd(long *p, long v) { return __atomic_fetch_add(p, v, __ATOMIC_RELAXED); }
static inline float gpusim_aadd(float *p, float v) {
  uint32_t *u = (uint32_t*) p; uint32_t old = __atomic_load_n(u, __ATOMIC_RELAXED), neu; float f;
  do { memcpy(&f, &old, 4); f += v; memcpy(&neu, &f, 4); } while (!__atomic_compare_exchange_n(u, &old, neu, 0, __ATOMIC_RELAXED, __ATOMIC_RELAXED));
  memcpy(&f, &old, 4); return f;
}
static inline double gpusim_aadd(double *p, double v) {
  uint64_t *u = (uint64_t*) p; uint64_t old = __atomic_load_n(u, __ATOMIC_RELAXED), neu; double f;
  do { memcpy(&f, &old, 8); f += v; memcpy(&neu, &f, 8); } while (!__atomic_compare_exchange_n(u, &old, neu, 0, __ATOMIC_RELAXED, __ATOMIC_RELAXED));
  memcpy(&f, &old, 8); return f;
}
// the fixed kernel argument pack of the generated kernels
struct gpusim_args { int n; const int *in0; const int *in1; int *out0; int *out1; float *fout; int kernel; };
#endif
