// CUDA / HIP dialect on the emulator
#ifndef GPUSIM_CUDA_SHIM_H
#define GPUSIM_CUDA_SHIM_H
#include "gpusim_device.h"
#define __global__
#define __device__
#define __host__
#define __shared__ static
#define __launch_bounds__(...)
#define __restrict__
#define threadIdx gpusim_threadIdx
#define blockIdx gpusim_blockIdx
#define blockDim gpusim_blockDim
#define gridDim gpusim_gridDim
static inline void __syncthreads() { gpusim_barrier(); }
template <class T> static inline T atomicAdd(T *p, T v) { return gpusim_aadd(p, v); }
template <class T> static inline T atomicSub(T *p, T v) { return gpusim_aadd(p, (T) -v); }
// CUDA's atomicInc/atomicDec exist for unsigned int only, take a wrap-around bound and are NOT ++/--:
//   atomicInc(p, v): old = *p; *p = (old >= v) ? 0 : old + 1;   atomicDec(p, v): *p = (old == 0 || old > v) ? v : old - 1
static inline unsigned int atomicInc(unsigned int *p, unsigned int v) {
  unsigned int old = *p;      // (one simulated thread runs at a time between scheduling points; the access below is traced)
  gpusim_aadd((int*) p, (int) ((old >= v) ? 0u - old : 1u));
  return old;
}
static inline unsigned int atomicDec(unsigned int *p, unsigned int v) {
  unsigned int old = *p;
  gpusim_aadd((int*) p, (int) (((old == 0) || (old > v)) ? v - old : 0u - 1u));
  return old;
}
#endif
