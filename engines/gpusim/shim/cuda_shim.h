// CUDA / HIP dialect on the emulator
#ifndef GPUSIM_CUDA_SHIM_H
#define GPUSIM_CUDA_SHIM_H
#include "gpusim_device.h"
#define __global__
#define __device__
#define __host__
#define __shared__ static
#define __launch_bounds__(...)
#define __restrict__
#define threadIdx gpusim_threadIdx
#define blockIdx gpusim_blockIdx
#define blockDim gpusim_blockDim
#define gridDim gpusim_gridDim
static inline void __syncthreads() { gpusim_barrier(); }
template <class T> static inline T atomicAdd(T *p, T v) { return gpusim_aadd(p, v); }
template <class T> static inline T atomicSub(T *p, T v) { return gpusim_aadd(p, (T) -v); }
static inline int atomicInc(int *p) { return gpusim_aadd(p, 1); }
static inline int atomicDec(int *p) { return gpusim_aadd(p, -1); }
#endif
