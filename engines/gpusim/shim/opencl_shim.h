// OpenCL C dialect (compiled as C++) on the emulator
#ifndef GPUSIM_OPENCL_SHIM_H
#define GPUSIM_OPENCL_SHIM_H
#include "gpusim_device.h"
#define __kernel extern "C"
#define __global
#define __local static
#define __constant const
#define __private
#define restrict __restrict__
#define CLK_LOCAL_MEM_FENCE 1
#define CLK_GLOBAL_MEM_FENCE 2
static inline unsigned gpusim_pick(const gpusim_dim3 &d, int i) { return i == 0 ? d.x : (i == 1 ? d.y : d.z); }
static inline unsigned get_group_id(int i) { return gpusim_pick(gpusim_blockIdx, i); }
static inline unsigned get_local_id(int i) { return gpusim_pick(gpusim_threadIdx, i); }
static inline unsigned get_local_size(int i) { return gpusim_pick(gpusim_blockDim, i); }
static inline unsigned get_num_groups(int i) { return gpusim_pick(gpusim_gridDim, i); }
static inline unsigned get_global_id(int i) { return get_group_id(i) * get_local_size(i) + get_local_id(i); }
static inline void barrier(int) { gpusim_barrier(); }
template <class T> static inline T atomic_add(volatile T *p, T v) { return gpusim_aadd((T*) p, v); }
template <class T> static inline T atomic_sub(volatile T *p, T v) { return gpusim_aadd((T*) p, (T) -v); }
template <class T> static inline T atomic_inc(volatile T *p) { return gpusim_aadd((T*) p, (T) 1); }
template <class T> static inline T atomic_dec(volatile T *p) { return gpusim_aadd((T*) p, (T) -1); }
#endif
