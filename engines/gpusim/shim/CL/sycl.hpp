// SYCL subset used by OCCA's dpcpp translation, on the emulator
#ifndef GPUSIM_SYCL_SHIM_H
#define GPUSIM_SYCL_SHIM_H
#define SYCL_EXTERNAL
#include "../gpusim_device.h"
#include <new>
#include <stddef.h>
namespace sycl {
  namespace access { enum class fence_space { local_space, global_space, global_and_local }; enum class address_space { global_space, local_space }; }
  enum class memory_order { relaxed, acquire, release, acq_rel, seq_cst };
  enum class memory_scope { work_item, sub_group, work_group, device, system };
  template <int D> struct range { size_t v[D]; range(size_t a, size_t b, size_t c) { v[0] = a; v[1] = b; v[2] = c; } size_t operator[](int i) const { return v[i]; } };
  template <int D> struct nd_range { range<D> global, local; nd_range(range<D> g, range<D> l) : global(g), local(l) {} };
  template <int D> struct group { };
  template <int D> struct nd_item {
    // dimension 2 is the fastest (x), as in OCCA's dpcpp mode
    static unsigned pick(const gpusim_dim3 &d, int i) { return i == 2 ? d.x : (i == 1 ? d.y : d.z); }
    size_t get_group(int i) const { return pick(gpusim_blockIdx, i); }
    group<D> get_group() const { return group<D>(); }
    size_t get_local_id(int i) const { return pick(gpusim_threadIdx, i); }
    size_t get_local_range(int i) const { return pick(gpusim_blockDim, i); }
    size_t get_group_range(int i) const { return pick(gpusim_gridDim, i); }
    size_t get_global_id(int i) const { return get_group(i) * get_local_range(i) + get_local_id(i); }
    void barrier(access::fence_space = access::fence_space::local_space) const { gpusim_barrier(); }
  };
  template <class T, memory_order O, memory_scope S, access::address_space A = access::address_space::global_space>
  struct atomic_ref {
    T &ref;
    explicit atomic_ref(T &r) : ref(r) {}
    T operator+=(T v) const { return gpusim_aadd(&ref, v) + v; }
    T operator-=(T v) const { return gpusim_aadd(&ref, (T) -v) - v; }
    T operator++() const { return gpusim_aadd(&ref, (T) 1) + 1; }
    T operator--() const { return gpusim_aadd(&ref, (T) -1) - 1; }
    T operator++(int) const { return gpusim_aadd(&ref, (T) 1); }
    T operator--(int) const { return gpusim_aadd(&ref, (T) -1); }
    T fetch_add(T v) const { return gpusim_aadd(&ref, v); }
  };
  struct handler {
    template <class K> struct Box { const K *k; };
    template <class K> static void body(void *p) { const K &k = *((Box<K>*) p)->k; k(nd_item<3>()); }
    template <class K> void parallel_for(nd_range<3> r, const K &k) {
      Box<K> box = { &k };
      gpusim_dim3 block = { (unsigned) r.local[2], (unsigned) r.local[1], (unsigned) r.local[0] };
      gpusim_dim3 grid = { (unsigned) (r.global[2] / r.local[2]), (unsigned) (r.global[1] / r.local[1]), (unsigned) (r.global[0] / r.local[0]) };
      gpusim_launch(&body<K>, &box, grid, block);
    }
  };
  struct queue {
    template <class F> void submit(F f) { handler h; f(h); }
    void wait() {}
  };
  namespace ext { namespace oneapi {
    // work-group local memory: one instance per call site (keyed by the return address) and block
    // work-group local memory lives outside the heap arena (like __shared__ statics): one instance per call
    // site, reused by the sequentially executed blocks
    struct gpusim_site { void *site; void *mem; };
    static gpusim_site gpusim_sites[64];
    static char gpusim_local_pool[1 << 16] __attribute__((aligned(64)));
    static size_t gpusim_local_used = 0;
    __attribute__((noinline, no_sanitize_thread)) static void *gpusim_site_memory(void *site, size_t bytes) {
      for (int i = 0; i < 64; ++i) {
        if (gpusim_sites[i].site == site) return gpusim_sites[i].mem;
        if (gpusim_sites[i].site == 0) { gpusim_sites[i].site = site; gpusim_sites[i].mem = gpusim_local_pool + gpusim_local_used; gpusim_local_used += (bytes + 63) & ~(size_t) 63; return gpusim_sites[i].mem; }
      }
      return 0;
    }
    template <class T, class G> __attribute__((noinline, no_sanitize_thread)) T *group_local_memory_for_overwrite(G) {
      return (T*) gpusim_site_memory(__builtin_return_address(0), sizeof(T));
    }
  } }
}
#endif
