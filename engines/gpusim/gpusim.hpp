// gpusim — emulation of the GPU launch model on the deterministic thread scheduler (simrt).
// A launch is a grid of blocks; blocks run one after another in a seeded order; the threads of a
// block are simulated threads; barriers are simulated barriers; __shared__ storage is per block
// (blocks are sequential, so one static instance suffices).  Whether two accesses of one launch are
// ordered is decided afterwards on the recorded trace (same block and separated by a barrier, or both
// atomic), so blocks need not run concurrently for races between blocks to be seen.
#ifndef GPUSIM_HPP
#define GPUSIM_HPP
extern "C" {
  struct gpusim_dim3 { unsigned x, y, z; };
  extern __thread gpusim_dim3 gpusim_threadIdx, gpusim_blockIdx;
  extern gpusim_dim3 gpusim_blockDim, gpusim_gridDim;
  void gpusim_launch(void (*body)(void*), void *arg, gpusim_dim3 grid, gpusim_dim3 block);
  void gpusim_barrier();
  // the launch does not respect the bound the translator declared for this kernel (__launch_bounds__ /
  // reqd_work_group_size): on real hardware the launch fails
  void gpusim_launch_bounds_violation(int kernel, unsigned bx, unsigned by, unsigned bz, const char *declared);
  float gpusim_atomic_add_float(float *p, float v);
  double gpusim_atomic_add_double(double *p, double v);
}
#endif
