#include "gpusim.hpp"
#include "../simrt/simrt.hpp"

#include <cstdint>
#include <cstring>
#include <vector>

__thread gpusim_dim3 gpusim_threadIdx, gpusim_blockIdx;
gpusim_dim3 gpusim_blockDim, gpusim_gridDim;

namespace gpusim {
  unsigned long blockSeed = 1;      // seeded block order
  int firstThread = 1;
  long launches = 0, blocksRun = 0;
  long stepLog[8192][4];            // (launch, region, thread, scheduling points)
  int nStepLog = 0;

  struct Job { void (*body)(void*); void *arg; gpusim_dim3 bid; };
  static Job job;
  static int blockThreads = 1;
  static char barrierTag;

  static void trampoline(void *p) {
    const long lin = (long) p;
    gpusim_threadIdx.x = lin % gpusim_blockDim.x;
    gpusim_threadIdx.y = (lin / gpusim_blockDim.x) % gpusim_blockDim.y;
    gpusim_threadIdx.z = lin / ((long) gpusim_blockDim.x * gpusim_blockDim.y);
    gpusim_blockIdx = job.bid;
    job.body(job.arg);
  }

  static unsigned long rnd() { blockSeed ^= blockSeed << 13; blockSeed ^= blockSeed >> 7; blockSeed ^= blockSeed << 17; return blockSeed; }
}

extern "C" {
  void gpusim_launch(void (*body)(void*), void *arg, gpusim_dim3 grid, gpusim_dim3 block) {
    using namespace gpusim;
    ++launches;
    sim::mark(9, 0);
    gpusim_blockDim = block; gpusim_gridDim = grid;
    const long nb = (long) grid.x * grid.y * grid.z;
    blockThreads = (int) ((long) block.x * block.y * block.z);
    if (nb <= 0 || blockThreads <= 0) return;
    if (blockThreads > 60) sim::report("engine", "block of %d threads exceeds the emulator's limit", blockThreads);
    std::vector<long> order(nb);
    for (long i = 0; i < nb; ++i) order[i] = i;
    for (long i = nb - 1; i > 0; --i) { long j = (long) (rnd() % (unsigned long) (i + 1)); long t = order[i]; order[i] = order[j]; order[j] = t; }
    for (long k = 0; k < nb; ++k) {
      const long b = order[k];
      job.body = body; job.arg = arg;
      job.bid.x = b % grid.x; job.bid.y = (b / grid.x) % grid.y; job.bid.z = b / ((long) grid.x * grid.y);
      const int region = sim::beginRegion();
      for (long t = 0; t < blockThreads; ++t) sim::spawn(trampoline, (void*) t);
      sim::run(firstThread >= 1 && firstThread <= blockThreads ? firstThread : 1);
      ++blocksRun;
      for (int t = 1; t <= blockThreads && nStepLog < 8192; ++t) {
        stepLog[nStepLog][0] = launches; stepLog[nStepLog][1] = region; stepLog[nStepLog][2] = t; stepLog[nStepLog][3] = sim::steps(t); ++nStepLog;
      }
    }
  }

  void gpusim_barrier() { sim::barrier(&gpusim::barrierTag, gpusim::blockThreads); }
  void gpusim_launch_bounds_violation(int kernel, unsigned bx, unsigned by, unsigned bz, const char *declared) {
    sim::report("launch-bounds", "device kernel %d is launched with a block of %u x %u x %u work items but its translation declares %s",
                kernel, bx, by, bz, declared);
  }

  float gpusim_atomic_add_float(float *p, float v) {
    uint32_t *u = (uint32_t*) p;
    uint32_t old = __atomic_load_n(u, __ATOMIC_RELAXED), neu;
    float f;
    do { memcpy(&f, &old, 4); f += v; memcpy(&neu, &f, 4); } while (!__atomic_compare_exchange_n(u, &old, neu, 0, __ATOMIC_RELAXED, __ATOMIC_RELAXED));
    memcpy(&f, &old, 4);
    return f;
  }
  double gpusim_atomic_add_double(double *p, double v) {
    uint64_t *u = (uint64_t*) p;
    uint64_t old = __atomic_load_n(u, __ATOMIC_RELAXED), neu;
    double f;
    do { memcpy(&f, &old, 8); f += v; memcpy(&neu, &f, 8); } while (!__atomic_compare_exchange_n(u, &old, neu, 0, __ATOMIC_RELAXED, __ATOMIC_RELAXED));
    memcpy(&f, &old, 8);
    return f;
  }
}
