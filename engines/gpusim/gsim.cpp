// gsim — C20 harness: runs the generator's sequential reference and one backend translation of the same
// OKL kernel on the same inputs.  Host backends (serial, openmp) are called directly (openmp on the
// simulated OpenMP runtime); GPU backends (cuda, hip, opencl, metal, dpcpp) are called through the host
// launcher that OCCA emitted, compiled against a stand-in for occa::kernel that forwards to the
// launch-model emulator.
//
// stdin:  RUN <ref.so> <backend.so> <direct|launcher> <nkernels> <n> <team> <seed> <first> <dataseed> <trace> <nswitch>
//         S <region> <tid> <step> <target>
// stdout: REF <hex>  OUT <hex>  STEPS <launch> <region> <tid> <n> ...  FIRED <k>  LAUNCHES <l> BLOCKS <b>
#include <sys/resource.h>
#include <cstdio>
#include <cstdlib>
#include <cstring>
#include <dlfcn.h>
#include <iostream>
#include <string>
#include <sys/wait.h>
#include <unistd.h>
#include <vector>

#include "../simrt/simrt.hpp"
#include "../simrt/simomp.hpp"
#include "gpusim.hpp"

namespace gpusim { extern unsigned long blockSeed; extern int firstThread; extern long launches, blocksRun; extern long stepLog[8192][4]; extern int nStepLog; }

static const int NIN = 64, NOUT = 64, NF = 8;
struct Data { int *in0, *in1, *out0, *out1; float *fout; };

static Data makeData(unsigned long seed) {
  Data d;
  d.in0 = (int*) malloc(NIN * sizeof(int)); d.in1 = (int*) malloc(NIN * sizeof(int));
  d.out0 = (int*) malloc(NOUT * sizeof(int)); d.out1 = (int*) malloc(NOUT * sizeof(int));
  d.fout = (float*) malloc(NF * sizeof(float));
  unsigned long x = seed * 2862933555777941757ul + 3037000493ul;
  for (int i = 0; i < NIN; ++i) { x ^= x << 13; x ^= x >> 7; x ^= x << 17; d.in0[i] = (int) (x % 10); d.in1[i] = (int) ((x >> 20) % 7); }
  for (int i = 0; i < NOUT; ++i) { d.out0[i] = 0; d.out1[i] = 0; }
  for (int i = 0; i < NF; ++i) d.fout[i] = 0.0f;
  return d;
}

static void dump(const char *tag, const Data &d) {
  printf("%s ", tag);
  const unsigned char *p = (const unsigned char*) d.out0;
  for (size_t i = 0; i < NOUT * sizeof(int); ++i) printf("%02x", p[i]);
  p = (const unsigned char*) d.out1;
  for (size_t i = 0; i < NOUT * sizeof(int); ++i) printf("%02x", p[i]);
  p = (const unsigned char*) d.fout;
  for (size_t i = 0; i < NF * sizeof(float); ++i) printf("%02x", p[i]);
  printf("\n");
}

static void *sym(const char *file, const char *name) {
  // "<device.so>,<launcher.so>": the device library is loaded first and globally so that the launcher's call of
  // gpusim_dispatch resolves to it (OCCA keeps device code and launcher in separate binaries too)
  std::string fn(file);
  size_t comma = fn.find(',');
  if (comma != std::string::npos) {
    const std::string dev = fn.substr(0, comma);
    if (!dlopen(dev.c_str(), RTLD_NOW | RTLD_GLOBAL)) { fprintf(stderr, "gsim: dlopen %s: %s\n", dev.c_str(), dlerror()); _exit(81); }
    fn = fn.substr(comma + 1);
    file = fn.c_str();
  }
  void *h = dlopen(file, RTLD_NOW | RTLD_LOCAL);
  if (!h) { fprintf(stderr, "gsim: dlopen %s: %s\n", file, dlerror()); _exit(81); }
  void *f = dlsym(h, name);
  if (!f) { fprintf(stderr, "gsim: no symbol %s in %s\n", name, file); _exit(82); }
  return f;
}

struct ModeKernel { int index; };
typedef void (*ref_t)(int, const int*, const int*, int*, int*, float*);
typedef void (*direct_t)(const int*, const int*, const int*, int*, int*, float*);
typedef void (*launcher_t)(ModeKernel**, const int*, void*, void*, void*, void*, void*);

int main(int argc, char **argv) {
  setvbuf(stdout, 0, _IOFBF, 1 << 16);
  const char *traceFile = argc > 1 ? argv[1] : "/dev/null";
  printf("READY\n");
  fflush(stdout);
  std::string line;
  while (std::getline(std::cin, line)) {
    if (line == "QUIT") break;
    if (line.compare(0, 4, "RUN ") != 0) continue;
    char ref[512], be[1100], kind[32];
    int nk = 1, n = 0, team = 2, first = 1, trace = 0, nsw = 0;
    unsigned long seed = 1, dataseed = 1;
    sscanf(line.c_str(), "RUN %511s %1099s %31s %d %d %d %lu %d %lu %d %d", ref, be, kind, &nk, &n, &team, &seed, &first, &dataseed, &trace, &nsw);
    std::vector<std::string> sw;
    for (int i = 0; i < nsw; ++i) { std::getline(std::cin, line); sw.push_back(line); }
    fflush(stdout);
    pid_t pid = fork();
    if (pid == 0) {
      // a run takes well under a second: sixty seconds of CPU time mean it does not terminate (SIGXCPU -> "hang")
      struct rlimit rl; rl.rlim_cur = 60; rl.rlim_max = 62;
      setrlimit(RLIMIT_CPU, &rl);
      sim::setChecking(true);
      sim::resetEntropy();
      Data a = makeData(dataseed), b = makeData(dataseed);
      ((ref_t) sym(ref, "kref"))(n, a.in0, a.in1, a.out0, a.out1, a.fout);
      dump("REF", a);
      simomp::teamSize = team; simomp::chunkState = seed ? seed : 1; simomp::maxChunk = 3; simomp::firstThread = first;
      gpusim::blockSeed = seed ? seed : 1; gpusim::firstThread = first;
      for (size_t i = 0; i < sw.size(); ++i) {
        int r, t, u; long k;
        if (sscanf(sw[i].c_str(), "S %d %d %ld %d", &r, &t, &k, &u) == 4) sim::addSwitch(t, k, u, r);
      }
      if (trace) sim::setTrace(traceFile);
      if (!strcmp(kind, "direct")) {
        ((direct_t) sym(be, "k"))(&n, b.in0, b.in1, b.out0, b.out1, b.fout);
      } else {
        std::vector<ModeKernel> mk(nk);
        std::vector<ModeKernel*> mkp(nk);
        for (int i = 0; i < nk; ++i) { mk[i].index = i; mkp[i] = &mk[i]; }
        ((launcher_t) sym(be, "k"))(mkp.data(), &n, b.in0, b.in1, b.out0, b.out1, b.fout);
      }
      sim::closeTrace();
      dump("OUT", b);
      for (int i = 0; i < gpusim::nStepLog; ++i) printf("STEPS %ld %ld %ld %ld\n", gpusim::stepLog[i][0], gpusim::stepLog[i][1], gpusim::stepLog[i][2], gpusim::stepLog[i][3]);
      for (int i = 0; i < simomp::nStepLog; ++i) printf("STEPS 0 %ld %ld %ld\n", simomp::stepLog[i][0], simomp::stepLog[i][1], simomp::stepLog[i][2]);
      printf("FIRED %ld\nLAUNCHES %ld\nBLOCKS %ld\n", sim::fired(), gpusim::launches, gpusim::blocksRun);
      fflush(stdout);
      _exit(0);
    }
    int st = 0;
    waitpid(pid, &st, 0);
    printf("STATUS %d %d\n", WIFEXITED(st) ? WEXITSTATUS(st) : -1, WIFSIGNALED(st) ? WTERMSIG(st) : 0);
    fflush(stdout);
  }
  return 0;
}
