#!/bin/sh
# Build the framework from files on disk only (offline): the three libocca variants (plain, asan, tsi)
# from /repo's working tree and the engines, under /verif/_work.  Every check repeats the incremental
# build itself, so this only front-loads the cold builds.
set -e
cd "$(dirname "$0")"
python3 - <<'PY'
import sys
sys.path.insert(0, '.')
from lib import procsim, hcheck, tcheck, kcheck, gcheck
procsim.ensure_engine()
hcheck.ensure_engine()
tcheck.ensure_engine()
kcheck.ensure_engine()
gcheck.ensure_engine()
# warm the harness kernel cache (real compiler, once) by starting the fork servers
hcheck.server().start(); hcheck.server().stop()
s = tcheck.Server("setup"); s.start(); s.proc.stdin.write("QUIT\n"); s.proc.stdin.flush(); s.proc.wait()
PY
# warm the content-addressed compile caches (translated kernels of the default seeds, compiler-stub memo) with short passes;
# their reports go to a scratch directory, the evidence files are only written by the registered commands
for p in C20 C21 C06 C07 C09 C10; do
  VERIF_OUT="$PWD/_work/warm-out" VERIF_BUDGET_S=40 ./check $p --tier quick > "_work/warm-$p.log" 2>&1 || true
done
rm -rf _work/warm-out
echo "setup done"
