#!/bin/sh
# Build the framework from files on disk only (offline): the libocca variants and the engines.
set -e
cd "$(dirname "$0")"
python3 - <<'PY'
import sys
sys.path.insert(0, '.')
from lib import procsim
procsim.ensure_engine()
PY
echo "setup done"
